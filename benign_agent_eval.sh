#!/bin/bash
# False-alarm test with property-preserving changes written by fresh sub-agents (each given only the
# text of one property and asked for changes that alter behaviour but keep the property true).
#   ./benign_agent_eval.sh <PROP> <A|B|C> ["check ids", default: the property's own check] [worktree prefix]
# The change is applied to a scratch worktree of /repo (/tmp/benrepo2) that a scratch copy of the harness
# (/tmp/benharness2) builds against; evidence and replays go to /tmp/benroot2.  Only the check of the
# property the change was written for is meaningful by default: the author saw no other property.
# Stored under /verif/benign/agents/<PROP>_<X>.{diff,json} (+ <PROP>_notes.md).
set -u
P="$1"; X="$2"; CHECKS="${3:-$1}"; PREFIX="${4:-/tmp/wtb_}"
S=$PREFIX$P/_benign
# without the author's scratch worktree the stored copy under /verif/benign/agents is used
STORED=0
if [ ! -f "$S/$X.diff" ]; then
  [ -f "/verif/benign/agents/${P}_$X.diff" ] || { echo "no $S/$X.diff and no stored copy"; exit 2; }
  S=$(mktemp -d); cp "/verif/benign/agents/${P}_$X.diff" "$S/$X.diff"; cp "/verif/benign/agents/${P}_notes.md" "$S/notes.md" 2>/dev/null; STORED=1
fi
export CARGO_NET_OFFLINE=true
if [ ! -d /tmp/benrepo2 ]; then git -C /repo worktree add --detach /tmp/benrepo2 HEAD -q || exit 2; cp /repo/Cargo.lock /tmp/benrepo2/; fi
# on the current HEAD of /repo when the patch applies there (so that a defect repaired since the change
# was written does not raise the alarm), otherwise on the commit it was written against
BASE=$(git -C /repo rev-parse HEAD)
git -C /tmp/benrepo2 checkout -q -- . ; git -C /tmp/benrepo2 checkout -q --detach "$BASE"
if ! git -C /tmp/benrepo2 apply --check "$S/$X.diff" 2>/dev/null; then
  BASE=$(python3 -c "import json,sys; print(json.load(open(sys.argv[1]))['base_commit_of_repo'])" "/verif/benign/agents/${P}_$X.json" 2>/dev/null || git -C $PREFIX$P rev-parse HEAD); git -C /tmp/benrepo2 checkout -q --detach "$BASE"
fi
mkdir -p /tmp/benharness2 /tmp/benroot2
rsync -a --delete --exclude target /verif/harness/ /tmp/benharness2/
sed -i 's#/repo/rtmp#/tmp/benrepo2/rtmp#; s#/repo/amf0#/tmp/benrepo2/amf0#' /tmp/benharness2/Cargo.toml
cp /verif/KNOWN_FINDINGS.txt /tmp/benroot2/
git -C /tmp/benrepo2 apply "$S/$X.diff" || { echo "[$P/$X] patch does not apply"; exit 2; }
suite=$(cd /tmp/benrepo2 && cargo test --workspace --offline 2>&1 | grep -E "^test result" | awk '{p+=$4; f+=$6} END {print p" passed "f" failed"}')
( cd /tmp/benharness2 && cargo build --release --offline >/tmp/benroot2/build.log 2>&1 ) || { echo "[$P/$X] harness does not build against the change"; tail -5 /tmp/benroot2/build.log; git -C /tmp/benrepo2 checkout -q -- .; exit 2; }
results=""
for c in $CHECKS; do
  out=$(RMLV_ROOT=/tmp/benroot2 /tmp/benharness2/target/release/rmlv run $c --tier quick --seed 17 2>&1); code=$?
  sig=$(echo "$out" | grep -E "^  signature:|INCONCLUSIVE|HARNESS" | head -3 | sed 's/^  signature: //' | cut -c1-140 | tr '\n' ';')
  notes=$(echo "$out" | grep -c "^NOTE")
  echo "[$P/$X] suite: $suite | check $c exit=$code notes=$notes $sig"
  results="$results{\"check\":\"$c\",\"exit\":$code,\"notes\":$notes,\"signatures\":\"$(echo $sig | sed 's/"/\\"/g')\"},"
done
git -C /tmp/benrepo2 checkout -q -- .
D=/verif/benign/agents; mkdir -p $D
[ "$STORED" = 1 ] || { cp "$S/$X.diff" $D/${P}_$X.diff; cp "$S/notes.md" $D/${P}_notes.md; }
python3 - "$P" "$X" "$suite" "[${results%,}]" "$D/${P}_$X.json" "$BASE" <<'PY'
import sys, json
P,X,suite,results,outp,base = sys.argv[1:]
json.dump({"written_for_property": P, "variant": X, "base_commit_of_repo": base,
 "origin": "independent sub-agent given only the property text, asked for a behaviour-changing but property-preserving change",
 "existing_suite_with_change": suite, "checks_run_against_it": json.loads(results),
 "how_run": "scratch worktree of /repo + scratch copy of /verif/harness; `rmlv run <id> --tier quick --seed 17`"}, open(outp,'w'), indent=1)
PY
