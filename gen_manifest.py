#!/usr/bin/env python3
"""Regenerates MANIFEST.json from the table below and the list of checks the harness has built
(`rmlv list`).  Properties without a built check are listed under not_applicable with the reason."""
import json, subprocess, sys, os

HERE = os.path.dirname(os.path.abspath(__file__))

# id -> (technique, level text, level note, design ref)
T = {
 "C01": ("differential round trip through the real serializer and deserializer under random partitions; history equality oracle",
         "Executes the real ChunkSerializer -> bytes -> ChunkDeserializer on generated message/chunk-size histories under several partitions each and compares the received list with the sent list (plus non-empty-packet and droppable-flag monitors). Sampled quantifier with boundary-biased generators; held on the executions observed, not proven.",
         "Trusts the harness generator and list comparison only; expected values are the sent messages themselves.", "4/C01"),
 "C02": ("two real sessions over a simulated network with a random scheduler; exactly-once/in-order/byte-exact history checker",
         "Runs a real ClientSession against a real ServerSession over two FIFO byte pipes with random fragmentation and interleaving, over chunk/window configurations, and checks the media history at the receiver against the sent list plus phase completion and finished events.",
         "Scripted application behaviour (accept every request); sampled configurations and schedules.", "4/C02"),
 "C03": ("process-level monitors (panic hook, overflow-checks build, counting allocator, per-call thread-CPU clock and per-case CPU-time watchdog, worker exit status) over hostile generated inputs in every session state; valgrind memcheck and Miri slices in thorough",
         "Feeds random, mutated and state-directed hostile byte streams to handshake, deserializer, message decoder and both sessions in all reachable state classes, each library call wrapped by the panic monitor, allocator bound and CPU watchdog in a supervised worker process.",
         "Memory bound 256*bytes+33MiB and the CPU limits (4 s per library call, 60 s per case) are calibrated constants. One known finding (F15, KNOWN_FINDINGS.txt) is exhibited by case 1 and reported as KNOWN-FINDING.", "4/C03"),
 "C04": ("generated values through the real encoder and decoder; bit-exact identity oracle",
         "Runs rml_amf0::serialize then deserialize on generated value sequences (all number bit patterns classes, boundary string/name lengths, nesting) and requires Err or exact identity with full consumption.",
         "Reference comparison uses harness value type with f64 bit patterns; object property order ignored.", "4/C04"),
 "C05": ("real client and server handshakes over simulated pipes with random fragmentation; byte-accounting history monitor",
         "Drives real Handshake instances against each other and against an independent original-handshake peer under generated partitions/interleavings with tagged trailing bytes, monitoring emitted shape, completion point and trailing-byte exactly-once delivery.",
         "Sampled schedules; splits at every packet boundary +-1 are generated deterministically.", "4/C05"),
 "C06": ("independent spec-written chunk encoder as foreign sender; differential oracle on the real deserializer",
         "Encodes generated message lists with an independent encoder using every csid form, header format and extended-timestamp placement the spec permits, feeds the bytes in random partitions to the real ChunkDeserializer and requires exact equality.",
         "The reference encoder is the reading of RTMP 5.3.1 stated in DESIGN; self-tested against a reference decoder.", "4/C06"),
 "C07": ("independent strict spec-following decoder as monitor on the real serializer's bytes",
         "Parses every byte the real ChunkSerializer emits for generated histories with an independent strict decoder that enforces each clause of the statement, and compares decoded messages with the sent ones.",
         "Leniencies listed in DESIGN section 5 (format-0 continuation chunks, modulo-2^32 deltas) are counted, not flagged.", "4/C07"),
 "C08": ("enumeration of drop subsets over real serializer output; both the real and an independent decoder as oracles",
         "For generated histories, enumerates all 2^k subsets of droppable packets (k<=10 thorough, <=6 quick; sampled beyond) and requires both the real ChunkDeserializer and the independent decoder to return exactly the surviving messages.",
         "Exhaustive only over subsets of each sampled history.", "4/C08"),
 "C09": ("executable reference state machine run in lock-step with the real ServerSession over generated and enumerated histories",
         "Random walks biased to rare orders plus bounded exhaustive enumeration of short sequences over a reduced alphabet; each step's events, decoded outbound messages and Ok/Err are compared with model::server.",
         "The model is written from the property text; corners the statement is silent on are recorded, not judged.", "4/C09"),
 "C10": ("executable reference state machine run in lock-step with the real ClientSession over generated and enumerated histories",
         "As C09 for the client workflow with model::client.",
         "Transaction ids that were never issued (fractional, negative, out of range, NaN) count as unknown (defect F13, fixed); so does the id consumed by a request that was refused for its argument (defect F16, fixed).", "4/C10"),
 "C11": ("independent SHA-256/HMAC implementation recomputes digests and signatures of generated packets; all 728 offsets enumerated through the fill hook",
         "Uses the deterministic fill hook to make the library generate packet 1 at every one of the 728 digest offsets for both roles, and feeds reference-built packet 1s at every offset of both schemes; digests, signatures and echoes are recomputed independently.",
         "Exhaustive over offsets, sampled over fillings.", "4/C11"),
 "C12": ("independent AMF0 encoder/strict decoder as differential oracle in both directions, marker enumeration, truncation at every cut point",
         "Four monitors on generated values: encoder bytes vs reference, decoder on reference variant encodings (property order, ECMA arrays with any count, any non-zero true byte), all 256 markers, every truncation point.",
         "Empty property names are treated as not expressible (DESIGN section 5).", "4/C12"),
 "C13": ("independent message-layout reference as differential oracle on MessagePayload <-> RtmpMessage in both directions",
         "Generated messages of every variant and all 256 type ids with reference, random, truncated and extended bodies; type id, body layout, round trip, 15/17 aliasing, passthrough and chunk-size range are checked against refmsg.",
         "Well-formed user-control messages carry exactly the fields their event defines.", "4/C13"),
 "C14": ("worker-process exit status, allocator bound, thread-CPU time bound and CPU watchdog while the real decoder runs on a 2 MiB-stack thread over a nesting/count ladder",
         "Decodes nested arrays/objects up to 16 MiB/5 deep, huge count fields and declared lengths with nothing behind them on an ordinary 2 MiB thread stack in a supervised worker.",
         "2 MiB = Rust's default spawned-thread stack is taken as 'an ordinary thread stack'.", "4/C14"),
 "C15": ("partition-independence monitor: every partition's call-by-call outputs compared with the byte-by-byte reference history",
         "For library-produced, foreign and mutated/invalid streams, the finest partition defines per-offset outputs and the first error; every other partition must deliver the same things in the calls that cover those offsets.",
         "Acknowledgement packets excluded (per-call by definition, C17); results of a failing call are not 'delivered'.", "4/C15"),
 "C16": ("independent per-csid reassembly as oracle on the real deserializer over interleaved foreign streams",
         "Generates interleavings of multi-chunk messages on distinct csids (no-overlap, audio-inside-video, round-robin, pairwise, random) and compares the library's deliveries with the reference reassembly, in two phases around the first overlap point.",
         "No open known finding for C16 (F10 and F14 repaired); regressions at/after the first overlap keep the former signature. Thorough adds a valgrind memcheck slice.", "4/C16"),
 "C17": ("byte-conservation model (W, outstanding) as online monitor on both sessions' acknowledgement output",
         "Small windows exhaustively against call-size patterns, sampled large windows, re-announcements and a >4 GiB volume run; acknowledgements extracted by decoding the returned packets independently.",
         "Call-granular reading of 'since the window was learned' (DESIGN section 5).", "4/C17"),
 "C18": ("independent strict decoder over everything sessions return, under a virtual clock and drop-subset enumeration",
         "C09/C10 walks extended with media sends at clock offsets around 2^24 and 2^32 ms; the concatenation of returned packets minus any droppable subset must decode strictly into well-formed messages on the expected message streams.",
         "Virtual clock injected through the verif_hooks feature.", "4/C18"),
 "C19": ("boundary-value enumeration of configuration values with CPU-time and allocator monitors, one supervised worker per call",
         "Every constructor/setter/call is invoked with boundary and out-of-range values; refusal or a working codec/session is required, hangs and runaway allocation are observed as worker events.",
         "Bounded time = CPU budget; bounded memory = allocator bound.", "4/C19"),
 "C20": ("laws of modular arithmetic and circular order evaluated on the real operators; exhaustive in a for six boundary deltas",
         "Thorough tier enumerates all 2^32 values of a for each boundary delta and evaluates 12 law clauses on the real RtmpTimestamp operators; plus boundary grid and 4*10^8 random pairs. Quick tier strides the same space.",
         "u64 host arithmetic is the reference; antipode requires only antisymmetry and non-equality.", "4/C20"),
}

def main():
    exe = os.path.join(HERE, "harness/target/release/rmlv")
    built = set(subprocess.check_output([exe, "list"], text=True).split())
    checks, na = [], []
    for pid in sorted(T):
        tech, text, note, ref = T[pid]
        if pid in built:
            checks.append({
                "property_id": pid,
                "quick_cmd": f"./check {pid} --tier quick",
                "thorough_cmd": f"./check {pid} --tier thorough",
                "evidence_file": f"/verif/evidence/{pid}.json",
                "replay_cmd_template": f"./check {pid} --replay {{path}}",
                "engine": "rmlv",
                "level_claimed": {"category": "exploration", "text": text, "design_ref": "DESIGN.md section " + ref},
                "level_note": note,
                "technique": "runtime monitoring: " + tech,
            })
        else:
            na.append({"property_id": pid, "reason": "check not built yet in this session (work in progress; planned in DESIGN.md section " + ref + ")"})
    m = {
        "version": 1,
        "setup_cmd": "cd /verif/harness && CARGO_NET_OFFLINE=true cargo build --release --offline",
        "hooks": {
            "guard": "verif_hooks (cargo feature of rml_rtmp, off by default)",
            "enable": "the harness depends on rml_rtmp by path (/repo/rtmp) with features = [\"verif_hooks\"]; every ./check rebuilds it from /repo's working tree",
            "baseline_off_cmd": "cd /repo && cargo test --workspace --no-fail-fast --offline",
            "source_commits": json.load(open(os.path.join(HERE, "hook_commits.json"))),
            "add_only": True,
        },
        "engines": [{"name": "rmlv", "path": "/verif/harness", "serves_properties": sorted(built),
                     "kind_free_text": "Rust harness: supervisor + 16 worker processes running the real library under panic/overflow/allocator/CPU monitors with independent reference implementations (chunk codec, AMF0, message layouts, SHA-256/HMAC handshake) and executable session models as oracles"}],
        "checks": checks,
        "notes": "All checks are runtime monitors over executions of the real code (see DESIGN.md). Exit 3 = harness/infrastructure problem or observation thresholds not met, never a verdict. Known findings: /verif/KNOWN_FINDINGS.txt.",
        "not_applicable": na,
    }
    json.dump(m, open(os.path.join(HERE, "MANIFEST.json"), "w"), indent=1)
    print("MANIFEST.json:", len(checks), "checks,", len(na), "not yet claimed")

main()
