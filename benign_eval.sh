#!/bin/bash
# False-alarm test: applies each property-PRESERVING change under /verif/benign/ to a scratch copy
# of the repository and runs every check (quick) against it.  Every check must exit 0.
#   ./benign_eval.sh [pattern] ["check ids"]
set -u
PAT="${1:-*}"; IDS="${2:-C01 C02 C03 C04 C05 C06 C07 C08 C09 C10 C11 C12 C13 C14 C15 C16 C17 C18 C19 C20}"
export CARGO_NET_OFFLINE=true
rm -rf /tmp/benrepo /tmp/benharness /tmp/benroot; git -C /repo worktree prune
git -C /repo worktree add --detach /tmp/benrepo HEAD -q || exit 2
cp /repo/Cargo.lock /tmp/benrepo/
mkdir -p /tmp/benharness /tmp/benroot
rsync -a --delete --exclude target /verif/harness/ /tmp/benharness/
sed -i 's#/repo/rtmp#/tmp/benrepo/rtmp#; s#/repo/amf0#/tmp/benrepo/amf0#' /tmp/benharness/Cargo.toml
cp /verif/KNOWN_FINDINGS.txt /tmp/benroot/
alarms=0
for f in /verif/benign/$PAT.diff; do
  name=$(basename "$f" .diff)
  git -C /tmp/benrepo checkout -q -- . ; git -C /tmp/benrepo apply "$f" || { echo "$name: patch does not apply"; continue; }
  ( cd /tmp/benharness && cargo build --release --offline >/tmp/benroot/build.log 2>&1 ) || { echo "$name: harness does not build"; tail -5 /tmp/benroot/build.log; continue; }
  line="$name:"
  for c in $IDS; do
    out=$(RMLV_ROOT=/tmp/benroot /tmp/benharness/target/release/rmlv run $c --tier quick --seed 17 2>&1); code=$?
    if [ $code -ne 0 ]; then
      alarms=$((alarms+1)); line="$line $c=ALARM($code)"
      echo "$out" | grep -E "signature:|INCONCLUSIVE|HARNESS" | head -3 | sed "s/^/    [$name $c] /" | cut -c1-260
    else
      n=$(echo "$out" | grep -c "^NOTE"); [ $n -gt 0 ] && line="$line $c=ok(note)" || line="$line $c=ok"
    fi
  done
  echo "$line"
done
git -C /tmp/benrepo checkout -q -- .
git -C /repo worktree remove --force /tmp/benrepo; rm -rf /tmp/benharness /tmp/benroot
echo "BENIGN: $alarms alarms"
