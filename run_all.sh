#!/bin/bash
# Runs every check of one tier at one seed and prints a one-line result per check.
#   ./run_all.sh [quick|thorough] [seed]
TIER="${1:-quick}"; SEED="${2:-1}"
cd "$(dirname "$0")"
rc=0
for id in C01 C02 C03 C04 C05 C06 C07 C08 C09 C10 C11 C12 C13 C14 C15 C16 C17 C18 C19 C20; do
  s=$(date +%s.%N)
  out=$(./check $id --tier "$TIER" --seed "$SEED" 2>&1); code=$?
  e=$(date +%s.%N)
  printf "%s exit=%d wall=%.1fs %s\n" "$id" "$code" "$(echo "$e - $s" | bc)" "$(echo "$out" | grep -E '^SUMMARY' | sed 's/SUMMARY property=[A-Z0-9]* //' | cut -c1-170)"
  if [ $code -ne 0 ]; then rc=1; echo "$out" | grep -vE '^SUMMARY' | cut -c1-400 | head -12; fi
done
exit $rc
