#!/opt/veriftools/pyvenv/bin/python
"""Validates MANIFEST.json and every evidence file against the given schemas."""
import json, glob, sys, jsonschema
ok = True
try:
    jsonschema.validate(json.load(open('/verif/MANIFEST.json')), json.load(open('/root/.vp/MANIFEST.schema.json')))
    print("MANIFEST.json valid")
except Exception as e:
    ok = False; print("MANIFEST.json INVALID:", str(e)[:500])
es = json.load(open('/root/.vp/EVIDENCE.schema.json'))
for f in sorted(glob.glob('/verif/evidence/*.json')):
    try:
        jsonschema.validate(json.load(open(f)), es)
    except Exception as e:
        ok = False; print(f, "INVALID:", str(e)[:500])
print("evidence files checked:", len(glob.glob('/verif/evidence/*.json')))
sys.exit(0 if ok else 1)
