#!/bin/bash
# Re-runs the target property's quick check against every stored seeded break (regression of
# detection after the checks have changed).  Uses scratch copies only; prints one line per break.
#   ./seed_rerun.sh [pattern]      e.g. ./seed_rerun.sh 'C0*'   (default: all)
set -u
PAT="${1:-*}"
export CARGO_NET_OFFLINE=true
rm -rf /tmp/seedrepo /tmp/seedharness /tmp/seedroot; git -C /repo worktree prune
git -C /repo worktree add --detach /tmp/seedrepo HEAD -q || exit 2
cp /repo/Cargo.lock /tmp/seedrepo/
mkdir -p /tmp/seedharness /tmp/seedroot
rsync -a --delete --exclude target /verif/harness/ /tmp/seedharness/
sed -i 's#/repo/rtmp#/tmp/seedrepo/rtmp#; s#/repo/amf0#/tmp/seedrepo/amf0#' /tmp/seedharness/Cargo.toml
cp /verif/KNOWN_FINDINGS.txt /tmp/seedroot/
caught=0; total=0
HEADC=$(git -C /repo rev-parse HEAD)
for d in /verif/seeded/$PAT/; do
  [ -f "$d/patch.diff" ] || continue
  name=$(basename "$d"); P=${name%%_*}
  base=$(python3 -c "import json,sys; print(json.load(open(sys.argv[1]))['base_commit_of_repo'].split()[0])" "$d/meta.json")
  # on the current HEAD of /repo when the patch still applies there (so that defects repaired since
  # the change was written do not do the catching), otherwise on the commit it was written against
  git -C /tmp/seedrepo checkout -q -- . ; git -C /tmp/seedrepo checkout -q --detach "$HEADC"
  onbase=$(python3 -c "import json,sys; print(json.load(open(sys.argv[1])).get('rerun_on_base', False))" "$d/meta.json")
  if [ "$onbase" != "True" ] && git -C /tmp/seedrepo apply --check "$d/patch.diff" 2>/dev/null; then on=HEAD; else on=$base; git -C /tmp/seedrepo checkout -q --detach "$base" || { echo "$name: cannot check out $base"; continue; }; fi
  git -C /tmp/seedrepo apply "$d/patch.diff" || { echo "$name: patch does not apply on $on"; continue; }
  ( cd /tmp/seedharness && cargo build --release --offline >/tmp/seedroot/build.log 2>&1 ) || { echo "$name: harness does not build"; continue; }
  out=$(RMLV_ROOT=/tmp/seedroot /tmp/seedharness/target/release/rmlv run $P --tier quick --seed 13 2>&1); code=$?
  sig=$(echo "$out" | grep -E "^  signature:" | head -1 | sed 's/^  signature: //' | cut -c1-100)
  total=$((total+1)); [ $code -eq 1 ] && caught=$((caught+1))
  echo "$name target=$P on=$on exit=$code $sig"
done
git -C /tmp/seedrepo checkout -q -- .
git -C /repo worktree remove --force /tmp/seedrepo; rm -rf /tmp/seedharness /tmp/seedroot
echo "RERUN: $caught of $total seeded breaks caught by their target check (quick, seed 13)"
