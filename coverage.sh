#!/bin/bash
# Measures which lines of the library the quick workloads of all checks reach (llvm source
# coverage, nightly toolchain). Informational: writes /verif/coverage/SUMMARY.txt and the
# per-file list of library lines that no check executed. Not part of any verdict.
#   ./coverage.sh [seed] [check ids...]
set -u
SEED="${1:-1}"; shift || true
IDS="${*:-C01 C02 C03 C04 C05 C06 C07 C08 C09 C10 C11 C12 C13 C14 C15 C16 C17 C18 C19 C20}"
cd "$(dirname "$0")/harness" || exit 3
BIN=$HOME/.rustup/toolchains/nightly-x86_64-unknown-linux-gnu/lib/rustlib/x86_64-unknown-linux-gnu/bin
OUT=/verif/coverage; rm -rf "$OUT"; mkdir -p "$OUT/raw"
export CARGO_NET_OFFLINE=true
LLVM_PROFILE_FILE="$OUT/raw/build-%p.profraw" RUSTFLAGS="-Cinstrument-coverage" cargo +nightly build --release --offline --target-dir target/cov >"$OUT/build.log" 2>&1 || { tail -20 "$OUT/build.log"; exit 3; }
EXE=target/cov/release/rmlv
for id in $IDS; do
  # a reduced deadline keeps the instrumented run short; the mandatory part always runs
  LLVM_PROFILE_FILE="$OUT/raw/$id-%p-%m.profraw" RMLV_ROOT="$OUT" VERIF_COVERAGE_RUN=1 timeout 600 $EXE run $id --tier quick --seed "$SEED" --no-evidence 2>&1 | grep -E "^SUMMARY" | cut -c1-150
done
rm -f "$OUT"/raw/build-*.profraw; $BIN/llvm-profdata merge -sparse "$OUT"/raw/*.profraw -o "$OUT/all.profdata" 2>>"$OUT/build.log"
$BIN/llvm-cov report $EXE -instr-profile="$OUT/all.profdata" --ignore-filename-regex='(\.cargo|/rustc/|harness/src|tests\.rs)' 2>/dev/null | grep -E "repo/|TOTAL|Filename|^-" > "$OUT/SUMMARY.txt"
$BIN/llvm-cov show $EXE -instr-profile="$OUT/all.profdata" --ignore-filename-regex='(\.cargo|/rustc/|harness/src|tests\.rs)' --show-line-counts-or-regions 2>/dev/null > "$OUT/show.txt"
python3 - "$OUT" <<'PY'
import sys, re
out = sys.argv[1]
cur = None; missed = {}
for line in open(out + "/show.txt", errors="replace"):
    if line.startswith("/repo/") and line.rstrip().endswith(":"):
        cur = line.strip().rstrip(":"); continue
    m = re.match(r"\s*(\d+)\|\s*0\|(.*)", line)
    if m and cur and "/src/" in cur:
        code = m.group(2).strip()
        if code and not code.startswith("//") and code not in ("}", "{", "};", "})", "}),", ")?;"):
            missed.setdefault(cur, []).append((int(m.group(1)), code))
with open(out + "/UNREACHED.txt", "w") as f:
    for k in sorted(missed):
        f.write("%s  (%d lines)\n" % (k, len(missed[k])))
        for n, c in missed[k]:
            f.write("   %5d  %s\n" % (n, c[:110]))
print(open(out + "/SUMMARY.txt").read())
PY
rm -rf "$OUT/raw" "$OUT/show.txt"
