//! Supervisor: spawns worker processes, observes their exit status (process death is an observed
//! event with a witness), aggregates records, applies the known-findings file, writes evidence and
//! replay files, and decides the exit code.  See DESIGN 2.2, 2.5, 2.6.

use crate::fw::{Check, Tier};
use crate::rng::fnv;
use serde_json::{json, Map, Value};
use std::collections::{BTreeMap, HashSet};
use std::io::{BufRead, BufReader, Read};
use std::os::unix::process::ExitStatusExt;
use std::process::{Child, Command, Stdio};
use std::sync::mpsc::{channel, Receiver, Sender};
use std::sync::{Arc, Mutex};
use std::time::{Duration, Instant};

/// root for evidence/, replays/ and KNOWN_FINDINGS.txt; RMLV_ROOT overrides it for background
/// sweeps that must not touch the registered evidence
pub fn verif_root() -> String {
    std::env::var("RMLV_ROOT").unwrap_or_else(|_| "/verif".to_string())
}

enum Msg {
    Line(usize, String),
    Eof(usize),
}

struct Shard {
    child: Option<Child>,
    stderr_tail: Arc<Mutex<Vec<u8>>>,
    open_case: Option<u64>,
    last_closed: Option<u64>,
    done: bool,
    restarts: u32,
    hang_reported: Option<u64>,
    ceiling_reported: bool,
}

pub struct RunOpts {
    pub tier: Tier,
    pub seed: u64,
    pub only_case: Option<u64>,
    pub verbose: bool,
    pub write_evidence: bool,
}

struct Known {
    sig: String,
    text: String,
}

fn load_known(id: &str) -> Vec<Known> {
    let mut out = Vec::new();
    let path = format!("{}/KNOWN_FINDINGS.txt", verif_root());
    if let Ok(s) = std::fs::read_to_string(&path) {
        for line in s.lines() {
            let line = line.trim();
            if let Some(rest) = line.strip_prefix("known:") {
                let rest = rest.trim();
                let mut prop = None;
                let mut sig = None;
                let mut text_start = 0;
                let mut idx = 0;
                for tok in rest.split(' ') {
                    if let Some(p) = tok.strip_prefix("property=") {
                        prop = Some(p.to_string());
                    } else if let Some(s) = tok.strip_prefix("signature=") {
                        sig = Some(s.to_string());
                        text_start = idx + tok.len() + 1;
                    }
                    idx += tok.len() + 1;
                }
                if let (Some(p), Some(s)) = (prop, sig) {
                    if p == id {
                        let text = if text_start <= rest.len() {
                            rest[text_start.min(rest.len())..].to_string()
                        } else {
                            String::new()
                        };
                        out.push(Known { sig: s, text });
                    }
                }
            }
        }
    }
    out
}

fn spawn_worker(
    id: &str,
    opts: &RunOpts,
    shard: usize,
    nshards: usize,
    start: u64,
    tx: &Sender<Msg>,
    samples: usize,
) -> std::io::Result<(Child, Arc<Mutex<Vec<u8>>>)> {
    let exe = std::env::current_exe()?;
    let mut cmd = Command::new(exe);
    cmd.arg("worker")
        .arg(id)
        .arg("--tier")
        .arg(opts.tier.name())
        .arg("--seed")
        .arg(opts.seed.to_string())
        .arg("--shard")
        .arg(shard.to_string())
        .arg("--nshards")
        .arg(nshards.to_string())
        .arg("--start")
        .arg(start.to_string())
        .arg("--samples")
        .arg(samples.to_string());
    if let Some(c) = opts.only_case {
        cmd.arg("--case").arg(c.to_string());
    }
    if opts.verbose {
        cmd.arg("--verbose");
    }
    cmd.env("RUST_BACKTRACE", "0");
    cmd.stdin(Stdio::null())
        .stdout(Stdio::piped())
        .stderr(Stdio::piped());
    let mut child = cmd.spawn()?;
    let stdout = child.stdout.take().unwrap();
    let mut stderr = child.stderr.take().unwrap();
    let tx2 = tx.clone();
    std::thread::spawn(move || {
        let mut r = BufReader::with_capacity(1 << 16, stdout);
        let mut line = String::new();
        loop {
            line.clear();
            match r.read_line(&mut line) {
                Ok(0) | Err(_) => break,
                Ok(_) => {
                    let l = line.trim_end().to_string();
                    if !l.is_empty() && tx2.send(Msg::Line(shard, l)).is_err() {
                        break;
                    }
                }
            }
        }
        let _ = tx2.send(Msg::Eof(shard));
    });
    let tail = Arc::new(Mutex::new(Vec::new()));
    let tail2 = tail.clone();
    let verbose = opts.verbose;
    std::thread::spawn(move || {
        let mut buf = [0u8; 4096];
        loop {
            match stderr.read(&mut buf) {
                Ok(0) | Err(_) => break,
                Ok(n) => {
                    if verbose {
                        eprint!("{}", String::from_utf8_lossy(&buf[..n]));
                    }
                    let mut t = tail2.lock().unwrap();
                    t.extend_from_slice(&buf[..n]);
                    if t.len() > 8192 {
                        let cut = t.len() - 4096;
                        t.drain(..cut);
                    }
                }
            }
        }
    });
    Ok((child, tail))
}

struct Totals {
    evals: u64,
    counters: BTreeMap<String, u64>,
    maxes: BTreeMap<String, u64>,
    shapes: HashSet<u64>,
    samples: Vec<Value>,
    cases_run: u64,
    violations: Vec<(String, u64, Value)>, // (sig, case, detail): a bounded sample per signature
    viol_counts: BTreeMap<String, u64>,
    harness_errors: Vec<Value>,
    deaths: Vec<Value>,
    inconclusive: u64,
}

fn merge_agg(t: &mut Totals, v: &Value, max_samples: usize) {
    t.evals += v["evals"].as_u64().unwrap_or(0);
    if let Some(m) = v["counters"].as_object() {
        for (k, x) in m {
            *t.counters.entry(k.clone()).or_insert(0) += x.as_u64().unwrap_or(0);
        }
    }
    if let Some(m) = v["maxes"].as_object() {
        for (k, x) in m {
            let e = t.maxes.entry(k.clone()).or_insert(0);
            let x = x.as_u64().unwrap_or(0);
            if x > *e {
                *e = x;
            }
        }
    }
    if let Some(a) = v["shapes"].as_array() {
        for s in a {
            if let Some(s) = s.as_str() {
                if let Ok(h) = u64::from_str_radix(s, 16) {
                    t.shapes.insert(h);
                }
            }
        }
    }
    if let Some(a) = v["samples"].as_array() {
        for s in a {
            if t.samples.len() < max_samples {
                t.samples.push(s.clone());
            }
        }
    }
}

fn classify_death(status: &std::process::ExitStatus, stderr: &str, hang: bool, ceiling: bool) -> String {
    if hang || status.code() == Some(98) {
        return "cpu-budget-exceeded".to_string();
    }
    if ceiling || status.code() == Some(97) {
        return "alloc-ceiling-exceeded".to_string();
    }
    if stderr.contains("overflowed its stack") {
        return "stack-overflow".to_string();
    }
    if stderr.contains("memory allocation of") {
        return "allocation-failure-abort".to_string();
    }
    if let Some(sig) = status.signal() {
        return format!("signal-{}", sig);
    }
    format!("exit-{}", status.code().unwrap_or(-1))
}

pub fn run(check: &dyn Check, opts: &RunOpts) -> i32 {
    let id = check.id();
    let t0 = Instant::now();
    if let Err(e) = check.selftest() {
        println!("HARNESS-ERROR property={} reference self-test failed: {}", id, e);
        return 3;
    }
    let plan = check.plan(opts.tier);
    let nshards = if opts.only_case.is_some() {
        1
    } else {
        plan.workers.max(1).min(plan.cases.max(1) as usize)
    };
    let (tx, rx): (Sender<Msg>, Receiver<Msg>) = channel();
    let max_samples = 5usize;
    let mut shards: Vec<Shard> = Vec::new();
    for i in 0..nshards {
        let samples = if i < max_samples { 1 } else { 0 };
        let samples = if nshards == 1 { max_samples } else { samples };
        match spawn_worker(id, opts, i, nshards, 0, &tx, samples) {
            Ok((child, tail)) => shards.push(Shard {
                child: Some(child),
                stderr_tail: tail,
                open_case: None,
                last_closed: None,
                done: false,
                restarts: 0,
                hang_reported: None,
                ceiling_reported: false,
            }),
            Err(e) => {
                println!("HARNESS-ERROR property={} cannot spawn worker: {}", id, e);
                return 3;
            }
        }
    }

    let mut tot = Totals {
        evals: 0,
        counters: BTreeMap::new(),
        maxes: BTreeMap::new(),
        shapes: HashSet::new(),
        samples: Vec::new(),
        cases_run: 0,
        violations: Vec::new(),
        viol_counts: BTreeMap::new(),
        harness_errors: Vec::new(),
        deaths: Vec::new(),
        inconclusive: 0,
    };
    let wall_limit = Duration::from_secs_f64(plan.deadline_s * 4.0 + 180.0);
    let mut live = nshards;
    let mut wall_fired = false;

    while live > 0 {
        let msg = match rx.recv_timeout(Duration::from_millis(500)) {
            Ok(m) => m,
            Err(_) => {
                if t0.elapsed() > wall_limit && !wall_fired {
                    wall_fired = true;
                    for s in shards.iter_mut() {
                        if let Some(c) = s.child.as_mut() {
                            let _ = c.kill();
                        }
                    }
                }
                continue;
            }
        };
        match msg {
            Msg::Line(i, l) => {
                let s = &mut shards[i];
                if let Some(rest) = l.strip_prefix("B ") {
                    s.open_case = rest.trim().parse().ok();
                } else if let Some(rest) = l.strip_prefix("E ") {
                    s.last_closed = rest.trim().parse().ok();
                    s.open_case = None;
                    tot.cases_run += 1;
                } else if let Some(rest) = l.strip_prefix("V ") {
                    // a violation record must never be lost: if the line does not parse (e.g. a
                    // witness nested too deeply for the JSON parser) recover signature and case by hand
                    let (sig, case, detail) = match serde_json::from_str::<Value>(rest) {
                        Ok(v) => (v["sig"].as_str().unwrap_or("?").to_string(), v["case"].as_u64().unwrap_or(0), v["detail"].clone()),
                        Err(e) => {
                            let grab = |key: &str| -> Option<String> {
                                let pat = format!("\"{}\":", key);
                                let i = rest.find(&pat)? + pat.len();
                                let tail = rest[i..].trim_start();
                                if let Some(t) = tail.strip_prefix('"') {
                                    Some(t.split('"').next().unwrap_or("").to_string())
                                } else {
                                    Some(tail.chars().take_while(|c| c.is_ascii_digit()).collect())
                                }
                            };
                            (
                                grab("sig").unwrap_or_else(|| "unparseable-violation-record".to_string()),
                                grab("case").and_then(|c| c.parse().ok()).or(shards[i].open_case).unwrap_or(0),
                                json!({"note": format!("witness could not be parsed by the supervisor ({}); re-run the case for details", e), "raw_head": rest.chars().take(400).collect::<String>()}),
                            )
                        }
                    };
                    let c = tot.viol_counts.entry(sig.clone()).or_insert(0);
                    *c += 1;
                    if *c <= 20 {
                        tot.violations.push((sig, case, detail));
                    }
                } else if let Some(rest) = l.strip_prefix("A ") {
                    match serde_json::from_str::<Value>(rest) {
                        Ok(v) => merge_agg(&mut tot, &v, max_samples),
                        Err(e) => tot.harness_errors.push(json!({"shard": i, "error": format!("unparseable aggregate record: {}", e)})),
                    }
                } else if let Some(rest) = l.strip_prefix("H ") {
                    if let Ok(v) = serde_json::from_str::<Value>(rest) {
                        tot.harness_errors.push(v);
                    }
                } else if let Some(rest) = l.strip_prefix("HANG ") {
                    s.hang_reported = rest.trim().parse().ok();
                } else if l.starts_with("ALLOC-CEILING") {
                    s.ceiling_reported = true;
                } else if l == "DONE" {
                    s.done = true;
                }
            }
            Msg::Eof(i) => {
                let status = shards[i].child.as_mut().map(|c| c.wait());
                shards[i].child = None;
                if shards[i].done {
                    live -= 1;
                    continue;
                }
                // the worker died
                std::thread::sleep(Duration::from_millis(30)); // let the stderr reader finish
                let stderr = String::from_utf8_lossy(&shards[i].stderr_tail.lock().unwrap()).to_string();
                let status = match status {
                    Some(Ok(s)) => s,
                    _ => {
                        tot.harness_errors.push(json!({"shard": i, "error": "cannot wait for worker"}));
                        live -= 1;
                        continue;
                    }
                };
                if wall_fired {
                    tot.inconclusive += 1;
                    live -= 1;
                    continue;
                }
                let how = classify_death(
                    &status,
                    &stderr,
                    shards[i].hang_reported.is_some(),
                    shards[i].ceiling_reported,
                );
                let open = shards[i].open_case;
                let tail: String = stderr.chars().rev().take(600).collect::<String>().chars().rev().collect();
                tot.deaths.push(json!({"shard": i, "case": open, "how": how, "stderr_tail": tail}));
                match open {
                    Some(k) => {
                        tot.cases_run += 1;
                        let sig = check.death_signature(&how);
                        *tot.viol_counts.entry(sig.clone()).or_insert(0) += 1;
                        tot.violations.push((
                            sig,
                            k,
                            json!({"worker_death": how, "exit_status": format!("{:?}", status), "stderr_tail": tail}),
                        ));
                        shards[i].restarts += 1;
                        if opts.only_case.is_some() || shards[i].restarts > 400 {
                            if shards[i].restarts > 400 {
                                tot.inconclusive += 1;
                            }
                            live -= 1;
                            continue;
                        }
                        // restart the shard after the fatal case
                        shards[i].open_case = None;
                        shards[i].hang_reported = None;
                        shards[i].ceiling_reported = false;
                        match spawn_worker(id, opts, i, nshards, k + 1, &tx, 0) {
                            Ok((child, tail)) => {
                                shards[i].child = Some(child);
                                shards[i].stderr_tail = tail;
                            }
                            Err(e) => {
                                tot.harness_errors.push(json!({"shard": i, "error": format!("respawn: {}", e)}));
                                live -= 1;
                            }
                        }
                    }
                    None => {
                        // died outside any case: infrastructure problem, not a verdict
                        tot.harness_errors.push(json!({"shard": i, "error": "worker died outside a case", "how": how, "stderr_tail": tail}));
                        live -= 1;
                    }
                }
            }
        }
    }

    finish(check, opts, &plan, tot, t0, wall_fired)
}

fn finish(
    check: &dyn Check,
    opts: &RunOpts,
    plan: &crate::fw::Plan,
    tot: Totals,
    t0: Instant,
    wall_fired: bool,
) -> i32 {
    let id = check.id();
    let known = load_known(id);
    // deduplicate violations by signature
    let mut by_sig: BTreeMap<String, (u64, u64, Value)> = BTreeMap::new(); // sig -> (count, first case, detail)
    for (sig, case, detail) in tot.violations.iter() {
        let e = by_sig.entry(sig.clone()).or_insert((0, *case, detail.clone()));
        e.0 += 1;
        if *case < e.1 {
            e.1 = *case;
            e.2 = detail.clone();
        }
    }
    let mut unlisted = 0u64;
    let mut known_seen: Vec<String> = Vec::new();
    let mut viol_summ: Vec<Value> = Vec::new();
    for (sig, (count, case, detail)) in by_sig.iter_mut() {
        if let Some(c) = tot.viol_counts.get(sig) {
            *count = *c;
        }
        let (count, case, detail) = (&*count, &*case, &*detail);
        if let Some(k) = known.iter().find(|k| &k.sig == sig) {
            println!("KNOWN-FINDING: property={} {} [signature={} seen {}x]", id, k.text, sig, count);
            known_seen.push(sig.clone());
            viol_summ.push(json!({"signature": sig, "count": count, "known_finding": true}));
            continue;
        }
        unlisted += 1;
        let dir = format!("{}/replays/{}", verif_root(), id);
        let _ = std::fs::create_dir_all(&dir);
        let path = format!("{}/{:016x}.json", dir, fnv(sig.as_bytes()));
        let replay = json!({
            "property": id,
            "signature": sig,
            "tier": opts.tier.name(),
            "seed": opts.seed,
            "case": case,
            "occurrences_in_run": count,
            "witness": detail,
            "rerun": format!("./check {} --tier {} --seed {} --case {}", id, opts.tier.name(), opts.seed, case),
        });
        let _ = std::fs::write(&path, serde_json::to_string_pretty(&replay).unwrap());
        println!("VIOLATION property={} replay={}", id, path);
        println!("  signature: {}  (seen {}x, first case {})", sig, count, case);
        let d = serde_json::to_string(detail).unwrap_or_default();
        let d: String = d.chars().take(700).collect();
        println!("  witness: {}", d);
        viol_summ.push(json!({"signature": sig, "count": count, "known_finding": false, "replay": path}));
    }

    // thresholds
    let mut unmet: Vec<String> = Vec::new();
    if opts.only_case.is_none() {
        for c in check.required_counters(opts.tier) {
            if tot.counters.get(&c).copied().unwrap_or(0) == 0 {
                unmet.push(c);
            }
        }
        if tot.evals == 0 {
            unmet.push("evaluations".to_string());
        }
    }
    let mut unmet_soft: Vec<String> = Vec::new();
    if opts.only_case.is_none() {
        for c in check.soft_counters(opts.tier) {
            if tot.counters.get(&c).copied().unwrap_or(0) == 0 {
                unmet_soft.push(c);
            }
        }
    }

    let wall_s = t0.elapsed().as_secs_f64();
    let skipped = tot.counters.get("cases_skipped_by_deadline").copied().unwrap_or(0);
    let exhaustive = check.exhaustive_part(opts.tier);
    let mut cov = Map::new();
    cov.insert("evaluations".into(), json!(tot.evals));
    // each worker reports at most 10^6 distinct shape signatures (memory cap), so for very long
    // runs this is a lower bound of the true number
    cov.insert("distinct_nontrivial".into(), json!(tot.shapes.len()));
    cov.insert("distinct_nontrivial_is_lower_bound".into(), json!(tot.shapes.len() >= 1_000_000));
    cov.insert("rule".into(), json!(check.rule()));
    cov.insert("samples".into(), Value::Array(tot.samples.clone()));
    cov.insert("cases_planned".into(), json!(plan.cases));
    cov.insert("cases_run".into(), json!(tot.cases_run));
    cov.insert("cases_skipped_by_deadline".into(), json!(skipped));
    if let Some(e) = &exhaustive {
        cov.insert("exhaustive".into(), json!(skipped == 0 || plan.mandatory > 0));
        cov.insert("exhaustive_part".into(), json!(e));
    } else {
        cov.insert("exhaustive".into(), json!(false));
    }
    // model coverage: counters named transition_<state>__<symbol> are summarised, not listed
    let mut observed = tot.counters.clone();
    let trans: Vec<String> = observed.keys().filter(|k| k.starts_with("transition_")).cloned().collect();
    if !trans.is_empty() {
        let mut states: HashSet<String> = HashSet::new();
        let mut steps = 0u64;
        for k in trans.iter() {
            if let Some(rest) = k.strip_prefix("transition_") {
                states.insert(rest.split("__").next().unwrap_or("").to_string());
            }
            steps += observed.remove(k).unwrap_or(0);
        }
        let mut st: Vec<String> = states.into_iter().collect();
        st.sort();
        cov.insert("states".into(), json!(st.len()));
        cov.insert("transitions".into(), json!(trans.len()));
        cov.insert("model_state_classes_visited".into(), json!(st));
        cov.insert("model_steps_executed".into(), json!(steps));
    }
    cov.insert("observed".into(), json!(observed));
    cov.insert("observed_max".into(), json!(tot.maxes));
    cov.insert("worker_deaths".into(), json!(tot.deaths));
    cov.insert("inconclusive".into(), json!(tot.inconclusive + if wall_fired { 1 } else { 0 }));
    cov.insert("violation_signatures".into(), Value::Array(viol_summ));
    cov.insert("harness_errors".into(), json!(tot.harness_errors.len()));
    cov.insert("unmet_observation_thresholds".into(), json!(unmet));
    cov.insert("library_policy_observations_not_seen".into(), json!(unmet_soft));
    let ev = json!({
        "property_id": id,
        "tier": opts.tier.name(),
        "seed": opts.seed,
        "level": "exploration",
        "coverage": Value::Object(cov),
        "assumptions": check.assumptions(),
        "wall_s": (wall_s * 100.0).round() / 100.0,
        "violations": unlisted,
    });
    if opts.write_evidence {
        let dir = format!("{}/evidence", verif_root());
        let _ = std::fs::create_dir_all(&dir);
        let path = format!("{}/{}.json", dir, id);
        if let Err(e) = std::fs::write(&path, serde_json::to_string_pretty(&ev).unwrap()) {
            println!("HARNESS-ERROR property={} cannot write evidence: {}", id, e);
            return 3;
        }
    }

    println!(
        "SUMMARY property={} tier={} seed={} cases={}/{} evaluations={} distinct_nontrivial={} violations(unlisted)={} known_findings={} deaths={} inconclusive={} wall_s={:.1}",
        id,
        opts.tier.name(),
        opts.seed,
        tot.cases_run,
        plan.cases,
        tot.evals,
        tot.shapes.len(),
        unlisted,
        known_seen.len(),
        tot.deaths.len(),
        tot.inconclusive,
        wall_s
    );
    if opts.verbose || opts.only_case.is_some() {
        println!("observed: {}", serde_json::to_string(&tot.counters).unwrap());
        println!("observed_max: {}", serde_json::to_string(&tot.maxes).unwrap());
    }
    if !unmet_soft.is_empty() {
        println!("NOTE property={} library-policy observations not seen in this run (informational): {:?}", id, unmet_soft);
    }
    for h in tot.harness_errors.iter().take(5) {
        println!("HARNESS-ERROR property={} {}", id, h);
    }
    if unlisted > 0 {
        return 1;
    }
    if !tot.harness_errors.is_empty() {
        return 3;
    }
    if wall_fired {
        println!("INCONCLUSIVE property={} wall-clock watchdog fired", id);
        return 3;
    }
    if !unmet.is_empty() {
        println!(
            "INCONCLUSIVE property={} minimum-observation thresholds not met: {:?}",
            id, unmet
        );
        return 3;
    }
    0
}
