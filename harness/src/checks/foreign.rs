//! Generator of conformant *foreign* chunk streams (what another implementation may send),
//! built on the independent encoder.  Shared by C06, C15, C16, C03.

use crate::refs::chunk::{set_chunk_size_msg, Choice, CsidForm, Encoder, Msg};
use crate::rng::Rng;
use std::collections::HashMap;

pub struct ForeignCfg {
    pub max_msgs: usize,
    pub max_len: usize,
    pub max_chunks: usize,
    pub scs_pct: u64,
    pub nonminimal_ok: bool,
    /// 1 in `many_one_in` streams (0: never) is a "many" stream: more than 1024 distinct chunk
    /// stream ids, or more than 1024 tiny messages
    pub many_one_in: u64,
}

pub struct Foreign {
    pub msgs: Vec<Msg>,
    /// per message: its chunks
    pub chunks: Vec<Vec<Vec<u8>>>,
    pub choices: Vec<Choice>,
    /// scs[i] = Some(size) when message i is an in-band chunk-size change
    pub scs: Vec<Option<u32>>,
}

impl Foreign {
    pub fn wire(&self) -> Vec<u8> {
        let mut v = Vec::new();
        for m in self.chunks.iter() {
            for c in m.iter() {
                v.extend_from_slice(c);
            }
        }
        v
    }
    pub fn to_json(&self) -> serde_json::Value {
        serde_json::Value::Array(
            self.msgs
                .iter()
                .zip(self.choices.iter())
                .map(|(m, c)| serde_json::json!({"msg": m.brief(), "csid": c.csid, "fmt": c.fmt, "three_byte_form": c.form == CsidForm::Three, "chunks": 0}))
                .collect(),
        )
    }
}

pub fn pick_csid(rng: &mut Rng) -> u32 {
    match rng.below(8) {
        0 => rng.range(2, 63) as u32,
        1 => *rng.pick(&[2u32, 3, 63]),
        2 => rng.range(64, 319) as u32,
        3 => *rng.pick(&[64u32, 65, 318, 319]),
        4 => rng.range(320, 65599) as u32,
        5 => *rng.pick(&[320u32, 321, 575, 576, 65598, 65599]),
        6 => rng.range(2, 8) as u32,
        _ => rng.range(64, 700) as u32,
    }
}

struct Template {
    type_id: u8,
    msid: u32,
    len: usize,
}

/// "Many" streams: tables with a cap and loops with a bound show only past the cap.  Either
/// N > 1024 distinct chunk stream ids each opened by one tiny message, after which early, middle
/// and late ones are revisited with compressed headers; or N > 1024 tiny messages on 1-3 ids.
fn gen_many(rng: &mut Rng, cfg: &ForeignCfg) -> Foreign {
    let mut enc = Encoder::new();
    let mut f = Foreign { msgs: vec![], chunks: vec![], choices: vec![], scs: vec![] };
    let n = if rng.chance(1, 20) { *rng.pick(&[65_537usize, 65_540]) } else { *rng.pick(&[1025usize, 1026, 1030, 1100, 2049, 2100, 4100]) };
    let distinct = rng.chance(2, 3);
    let stride = *rng.pick(&[1u32, 1, 3, 15]);
    let stride = if n > 5000 { 1 } else { stride };
    let base = rng.range(2, 65599 - (n as u64) * (stride as u64)) as u32;
    let ids: Vec<u32> = if distinct { (0..n as u32).map(|i| base + i * stride).collect() } else { (0..rng.usize(1, 3) as u32).map(|i| base + i * stride).collect() };
    let mut clock: u64 = rng.below(1000);
    let mut push = |enc: &mut Encoder, f: &mut Foreign, rng: &mut Rng, csid: u32, m: Msg, nonneg: bool| {
        let c = enc.random_choice(rng, csid, &m, nonneg, cfg.nonminimal_ok);
        f.chunks.push(enc.encode(&m, &c));
        f.msgs.push(m);
        f.choices.push(c);
        f.scs.push(None);
    };
    let type_of = |csid: u32| [8u8, 9, 18, 20, 4, 22][(csid % 6) as usize];
    let len_of = |csid: u32| (csid % 5) as usize;
    for i in 0..n {
        let csid = ids[i % ids.len()];
        clock += rng.below(40);
        let mut data = vec![0u8; len_of(csid)];
        rng.fill(&mut data);
        let m = Msg { type_id: type_of(csid), msid: 1 + csid % 3, ts: clock as u32, data };
        push(&mut enc, &mut f, rng, csid, m, true);
    }
    // revisit: same length, type and message stream as before, so that every compressed format is legal
    let revisit = rng.usize(8, 40);
    for j in 0..revisit {
        let csid = match j % 4 {
            0 => ids[j / 4 % ids.len()],                // the earliest ones
            1 => ids[ids.len() - 1 - (j / 4 % ids.len())], // the latest ones
            2 => ids[ids.len() / 2],
            _ => *rng.pick(&ids),
        };
        clock += rng.below(40);
        let mut data = vec![0u8; len_of(csid)];
        rng.fill(&mut data);
        let m = Msg { type_id: type_of(csid), msid: 1 + csid % 3, ts: clock as u32, data };
        push(&mut enc, &mut f, rng, csid, m, true);
    }
    f
}

pub fn gen_foreign(rng: &mut Rng, cfg: &ForeignCfg) -> Foreign {
    if cfg.many_one_in > 0 && rng.chance(1, cfg.many_one_in) {
        return gen_many(rng, cfg);
    }
    let mut enc = Encoder::new();
    let n = match rng.below(5) {
        0 => rng.usize(1, 3),
        1 => cfg.max_msgs,
        _ => rng.usize(1, cfg.max_msgs),
    };
    let pool_n = rng.usize(1, 4);
    let mut pool: Vec<u32> = Vec::new();
    for _ in 0..pool_n {
        // aliasing candidates: ids that collide under truncation or masking of an earlier one
        let c = match pool.last() {
            Some(&b) if rng.chance(1, 4) => {
                let d = *rng.pick(&[64u32, 256, 65536, 192, 1]);
                if b + d <= 65599 {
                    b + d
                } else if b > d + 1 {
                    b - d
                } else {
                    pick_csid(rng)
                }
            }
            _ => pick_csid(rng),
        };
        pool.push(c.clamp(2, 65599));
    }
    let mut clocks: HashMap<u32, u64> = HashMap::new();
    let mut templates: HashMap<u32, Template> = HashMap::new();
    let mut f = Foreign {
        msgs: vec![],
        chunks: vec![],
        choices: vec![],
        scs: vec![],
    };
    for _ in 0..n {
        if rng.below(100) < cfg.scs_pct {
            let size = *rng.pick(&[1u32, 2, 3, 31, 127, 128, 129, 1000, 4096, 70000, 0x1000000, 0x7FFF_FFFF]);
            let ts = if rng.coin() { 0 } else { rng.u32_boundary() };
            let m = set_chunk_size_msg(size, ts);
            // protocol control messages travel on chunk stream 2
            let c = enc.random_choice(rng, 2, &m, false, false);
            f.chunks.push(enc.encode(&m, &c));
            enc.chunk_size = size as usize;
            clocks.insert(2, ts as u64);
            f.msgs.push(m);
            f.choices.push(c);
            f.scs.push(Some(size));
            continue;
        }
        let csid = *rng.pick(&pool);
        let cap = cfg.max_len.min(enc.chunk_size.saturating_mul(cfg.max_chunks)).min(0xFFFFFF);
        let reuse = templates.contains_key(&csid) && rng.chance(3, 5);
        if !reuse {
            let len = match rng.below(12) {
                0 => 0,
                1 => 1,
                2 => enc.chunk_size.saturating_sub(1),
                3 => enc.chunk_size,
                4 => enc.chunk_size.saturating_add(1),
                5 => enc.chunk_size.saturating_mul(2),
                6 => enc.chunk_size.saturating_mul(3).saturating_add(1),
                7 => rng.usize(0, cap),
                _ => rng.usize(0, 40),
            }
            .min(cap);
            let keep_msid = templates.get(&csid).map(|t| t.msid);
            let control_len = rng.chance(3, 4);
            templates.insert(
                csid,
                Template {
                    type_id: *rng.pick(&[8u8, 9, 18, 20, 4, 3, 22, 0, 255, 15, 17, 2, 5, 6]),
                    msid: match keep_msid {
                        Some(m) if rng.chance(2, 3) => m,
                        // occasionally a message stream id equal to one of the chunk stream ids in use
                        _ if rng.chance(1, 6) => *rng.pick(&pool),
                        _ => *rng.pick(&[0u32, 1, 1, 1, 5, 0x01000000, 0xFFFF_FFFF]),
                    },
                    len,
                },
            );
            let t = templates.get_mut(&csid).unwrap();
            if control_len {
                match t.type_id {
                    2 | 3 | 5 => t.len = 4usize.min(cap),
                    6 => t.len = 5usize.min(cap),
                    _ => {}
                }
            }
        }
        let t = templates.get(&csid).unwrap();
        let len = t.len.min(cap);
        let backwards = rng.chance(1, 12);
        let (ts, nonneg) = if backwards || !clocks.contains_key(&csid) {
            let ts = rng.u32_boundary();
            clocks.insert(csid, ts as u64);
            (ts, false)
        } else {
            let prev_field = enc.prev_info(csid).map(|p| p.1 as u64).unwrap_or(0);
            let step: u64 = match rng.below(12) {
                0 => 0,
                1 | 2 | 3 => prev_field,
                4 => 1,
                5 => 33,
                6 => 0xFFFFFE,
                7 => 0xFFFFFF,
                8 => 0x1000000,
                9 => rng.below(1 << 32),
                10 => 0xFFFF_FFFF,
                _ => rng.below(3000),
            };
            let c = clocks.get_mut(&csid).unwrap();
            *c += step;
            (*c as u32, true)
        };
        let mut data = vec![0u8; len];
        rng.fill(&mut data);
        // protocol control messages whose number is a chunk stream id in use (an Abort for a
        // chunk stream with no message in flight has nothing to discard)
        if matches!(t.type_id, 2 | 3 | 5 | 6) && data.len() >= 4 && rng.chance(3, 4) {
            let c = *rng.pick(&pool);
            data[..4].copy_from_slice(&c.to_be_bytes());
        }
        let m = Msg {
            type_id: t.type_id,
            msid: t.msid,
            ts,
            data,
        };
        let c = enc.random_choice(rng, csid, &m, nonneg, cfg.nonminimal_ok);
        f.chunks.push(enc.encode(&m, &c));
        f.msgs.push(m);
        f.choices.push(c);
        f.scs.push(None);
    }
    // one stream in six ends on the smallest thing a stream can end on: a zero-length message
    // written as a bare type-3 chunk (here: the second of two on a fresh chunk stream, any csid form)
    if rng.chance(1, 6) {
        let mut csid = pick_csid(rng);
        while pool.contains(&csid) || csid == 2 {
            csid = pick_csid(rng);
        }
        let t = *rng.pick(&[0u32, 1, 40, 0xFFFFFE, 0xFFFFFF, 0x1000000]);
        let (type_id, msid) = (*rng.pick(&[8u8, 9, 18]), *rng.pick(&[0u32, 1, 5]));
        let form = if cfg.nonminimal_ok && rng.chance(1, 3) { CsidForm::Three } else { CsidForm::Min };
        for (i, ts) in [t, t.wrapping_mul(2)].iter().enumerate() {
            let m = Msg { type_id, msid, ts: *ts, data: vec![] };
            let c = Choice { csid, form: if csid < 64 { CsidForm::Min } else { form }, fmt: if i == 0 { 0 } else { 3 } };
            if i == 1 && !enc.legal_fmts(csid, &m, true).contains(&3) {
                break;
            }
            f.chunks.push(enc.encode(&m, &c));
            f.msgs.push(m);
            f.choices.push(c);
            f.scs.push(None);
        }
    }
    f
}
