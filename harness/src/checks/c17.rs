//! C17 - acknowledgements account for every received byte once the peer sets a window.
//! Online monitor: the (W, outstanding) byte-conservation model against both real sessions;
//! acknowledgements are extracted by decoding the returned packets independently.

use super::c02::ClockGuard;
use crate::fw::{guarded, panic_signature, Check, Out, Plan, Tier};
use crate::refs::chunk::{Decoder, Encoder, Msg};
use crate::refs::msg::{self, RMsg};
use crate::rng::{mix, Rng};
use rml_rtmp::sessions::{ClientSession, ClientSessionConfig, ClientSessionResult, ServerSession, ServerSessionConfig, ServerSessionResult};
use serde_json::{json, Value};

pub struct C17;

enum Sess {
    Server(ServerSession),
    Client(ClientSession),
}

struct Harness {
    sess: Sess,
    kind: &'static str,
    dec: Decoder,
    enc: Encoder,
    clock: u64,
}

/// packets a session returned from one call, in order
fn packets_of(sess: &mut Sess, input: &[u8], clock: &mut u64) -> Result<Result<Vec<Vec<u8>>, String>, (String, String)> {
    rml_rtmp::verif_hooks::set_clock_ms(Some(*clock));
    *clock += 7;
    guarded(|| match sess {
        Sess::Server(s) => s.handle_input(input).map_err(|e| format!("{:?}", e)).map(|rs| {
            rs.into_iter()
                .filter_map(|r| if let ServerSessionResult::OutboundResponse(p) = r { Some(p.bytes) } else { None })
                .collect()
        }),
        Sess::Client(s) => s.handle_input(input).map_err(|e| format!("{:?}", e)).map(|rs| {
            rs.into_iter()
                .filter_map(|r| if let ClientSessionResult::OutboundResponse(p) = r { Some(p.bytes) } else { None })
                .collect()
        }),
    })
}

impl Harness {
    /// `prefix`: Some(state class) = start from a session brought into that state by a valid
    /// prefix in which the peer has not announced a window (bytes received before the window is
    /// learned must not enter the accounting, whatever the session did meanwhile)
    fn new(server: bool, rng: &mut Rng, prefix: Option<usize>) -> Harness {
        if let Some(state) = prefix {
            if server {
                let (rig, _) = super::sessprep::prep_server(state, rng).unwrap_or_else(|e| panic!("harness: server prefix failed: {}", e));
                let clock = rig.clock + 1;
                return Harness { sess: Sess::Server(rig.s), kind: "server", dec: rig.dec, enc: rig.enc, clock };
            } else {
                let own = *rng.pick(&[2_500_000u32, 1, 100, 5000, 1 << 30]);
                let rig = super::sessprep::prep_client_with(state, rng, Some(false), Some(own)).unwrap_or_else(|e| panic!("harness: client prefix failed: {}", e));
                let clock = rig.clock + 1;
                return Harness { sess: Sess::Client(rig.s), kind: "client", dec: rig.dec, enc: rig.enc, clock };
            }
        }
        let mut dec = Decoder::new(true);
        let enc = Encoder::new();
        rml_rtmp::verif_hooks::set_clock_ms(Some(0));
        if server {
            let mut cfg = ServerSessionConfig::new();
            cfg.chunk_size = *rng.pick(&[128u32, 4096, 1]);
            let (s, init) = ServerSession::new(cfg).expect("ServerSession::new");
            for r in init {
                if let ServerSessionResult::OutboundResponse(p) = r {
                    dec.feed(&p.bytes).expect("initial server packets decodable");
                }
            }
            Harness { sess: Sess::Server(s), kind: "server", dec, enc, clock: 1 }
        } else {
            let (s, _) = ClientSession::new(ClientSessionConfig::new()).expect("ClientSession::new");
            Harness { sess: Sess::Client(s), kind: "client", dec, enc, clock: 1 }
        }
    }

    /// Messages that mean something to the session in some state (answers to its requests,
    /// requests of a peer): whatever they make the session do, the byte accounting goes on.  A
    /// session may answer some of them with an error in some states; the history then ends unjudged.
    fn semantic_filler(&mut self, rng: &mut Rng) -> Vec<u8> {
        use super::sessprep::{command, connect_cmd, status_obj};
        use crate::refs::amf::{self, V};
        let (m, msid): (RMsg, u32) = if self.kind == "client" {
            let tx = *rng.pick(&[1.0f64, 1.0, 2.0, 3.0, 999.0]);
            match rng.below(5) {
                0 => (command("_error", tx, V::Null, vec![status_obj("error", "NetConnection.Connect.Rejected", "no")]), 0),
                1 => (command("_result", tx, amf::obj(vec![("fmsVer", amf::s("FMS/3,0,1,123"))]), vec![status_obj("status", "NetConnection.Connect.Success", "ok")]), 0),
                2 => (command("_result", tx, V::Null, vec![amf::num(5.0)]), 0),
                3 => (command("onStatus", 0.0, V::Null, vec![status_obj("status", *rng.pick(&["NetStream.Play.Start", "NetStream.Publish.Start", "NetStream.Play.Reset", "Unknown.Code"]), "x")]), 5),
                _ => (command("onBWDone", 0.0, V::Null, vec![amf::num(8192.0)]), 0),
            }
        } else {
            match rng.below(7) {
                0 => (connect_cmd(1.0, "live"), 0),
                1 => (command("createStream", 2.0, V::Null, vec![]), 0),
                2 => (command("publish", 0.0, V::Null, vec![amf::s("key"), amf::s("live")]), 1),
                3 => (command("play", 0.0, V::Null, vec![amf::s("key")]), 1),
                4 => (command("closeStream", 0.0, V::Null, vec![amf::num(1.0)]), 1),
                5 => (command("deleteStream", 0.0, V::Null, vec![amf::num(1.0)]), 0),
                _ => (command("FCPublish", 3.0, V::Null, vec![amf::s("key")]), 0),
            }
        };
        let msg = Msg { type_id: m.type_id(), msid, ts: 0, data: m.body() };
        self.enc.encode_simple(&msg, 3)
    }

    /// A message of a known type whose body cannot be decoded (too short, or not AMF0).  A session
    /// may end the connection with an error - the history then ends unjudged - but if the call
    /// returns normally the byte accounting goes on, for this call too.
    fn malformed_filler(&mut self, rng: &mut Rng) -> Vec<u8> {
        let (type_id, data): (u8, Vec<u8>) = match rng.below(7) {
            0 => (3, vec![0, 1]),
            1 => (4, vec![0]),
            2 => (5, vec![0, 0]),
            3 => (5, vec![]),
            4 => (6, vec![0, 0, 1]),
            5 => (20, vec![0x02, 0xFF]),
            _ => (18, vec![0x03, 0x00, 0x05, 0x61]),
        };
        let csid = if type_id >= 18 { 3 } else { 2 };
        self.enc.encode_simple(&Msg { type_id, msid: 0, ts: 0, data }, csid)
    }

    /// one valid filler message the session tolerates in any state
    fn filler(&mut self, rng: &mut Rng, want: usize) -> Vec<u8> {
        // when a lot of bytes is needed, mostly large opaque messages (cheap to generate)
        let m = match if want > 4000 && rng.chance(7, 8) { 4 } else { rng.below(6) } {
            0 => RMsg::UserControl(6, vec![rng.u32()]),  // ping request (answered)
            1 => RMsg::UserControl(7, vec![rng.u32()]),  // ping response
            2 => RMsg::Ack(rng.u32()),
            3 => RMsg::UserControl(0, vec![rng.below(4) as u32]),
            4 => {
                let n = if want > 4000 { rng.usize(1000, 20_000) } else { rng.usize(0, 300) };
                RMsg::Unknown(22, vec![0x16; n])
            }
            _ => match rng.below(6) {
                // every other control message a peer may legitimately send, with values around
                // typical windows: none of them may influence the acknowledgement accounting
                0 => RMsg::SetPeerBw(rng.u32(), rng.below(3) as u8),
                1 => RMsg::SetPeerBw(*rng.pick(&[0u32, 1, 2, 10, 50, 300, 1000, 5000]), rng.below(3) as u8),
                2 => RMsg::Abort(rng.below(8) as u32),
                3 => RMsg::UserControl(3, vec![rng.below(4) as u32, rng.u32()]),
                4 => RMsg::UserControl(*rng.pick(&[1u16, 2, 4, 31, 32]), vec![rng.below(4) as u32]),
                _ => RMsg::SetChunkSize(*rng.pick(&[1u32, 64, 128, 4096, 100_000])),
            },
        };
        let csid = if m.type_id() == 22 { 7 } else { 2 };
        let msg = Msg { type_id: m.type_id(), msid: 0, ts: 0, data: m.body() };
        let bytes = self.enc.encode_simple(&msg, csid);
        if let RMsg::SetChunkSize(n) = m {
            self.enc.chunk_size = n as usize;
        }
        bytes
    }

    fn window_msg(&mut self, w: u32) -> Vec<u8> {
        let m = RMsg::WinAck(w);
        self.enc.encode_simple(&Msg { type_id: 5, msid: 0, ts: 0, data: m.body() }, 2)
    }
}

struct Model {
    w: Option<u32>,
    outstanding: u64,
    fed_since_learned: u64,
    acked: u64,
}

/// Run a history: `plan` = list of call sizes; `announce` = (call index, W) announcements whose
/// WindowAcknowledgement message starts exactly at the beginning of that call's bytes.
fn run_history(server: bool, announcements: &[(usize, u32)], calls: &[usize], rng: &mut Rng, out: &mut Out) -> bool {
    run_history_from(server, None, announcements, calls, rng, out)
}

fn run_history_from(server: bool, prefix: Option<usize>, announcements: &[(usize, u32)], calls: &[usize], rng: &mut Rng, out: &mut Out) -> bool {
    out.eval(1);
    let mut h = Harness::new(server, rng, prefix);
    if prefix.is_some() {
        out.count("histories_from_a_session_state_reached_by_a_prefix", 1);
    }
    // build the byte stream call by call: an announcement call starts with the window message
    let mut model = Model { w: None, outstanding: 0, fed_since_learned: 0, acked: 0 };
    let mut pending: Vec<u8> = Vec::new(); // bytes generated but not yet delivered
    // a third of the histories that start from a protocol state also carry protocol traffic
    let semantic = prefix.is_some() && rng.chance(1, 3);
    let mut semantic_used = false;
    if semantic {
        out.count("histories_with_protocol_traffic", 1);
    }
    // one history in six carries messages with undecodable bodies
    let malformed = rng.chance(1, 6);
    if malformed {
        out.count("histories_with_undecodable_message_bodies", 1);
    }
    let mut log: Vec<Value> = Vec::new();
    let witness = |log: &Vec<Value>| json!({"session": if server { "server" } else { "client" }, "prefix_state": prefix.map(|p| if server { super::sessprep::SERVER_STATES[p] } else { super::sessprep::CLIENT_STATES[p] }), "announcements(call,W)": announcements, "call_sizes": calls, "calls": log});
    for (ci, &n) in calls.iter().enumerate() {
        let ann = announcements.iter().find(|a| a.0 == ci).map(|a| a.1);
        let mut learn_in_this_call: Option<u32> = None;
        if let Some(w) = ann {
            // the announcement must be completely inside this call: flush alignment first
            if !pending.is_empty() {
                // deliver leftovers as part of this call, before the announcement
            }
            pending.extend(h.window_msg(w));
            learn_in_this_call = Some(w);
        }
        let need = if ann.is_some() { n.max(pending.len()) } else { n };
        while pending.len() < need {
            let f = if semantic && rng.chance(1, 8) {
                semantic_used = true;
                h.semantic_filler(rng)
            } else if malformed && rng.chance(1, 10) {
                semantic_used = true;
                h.malformed_filler(rng)
            } else {
                h.filler(rng, need - pending.len())
            };
            pending.extend(f);
        }
        let piece: Vec<u8> = pending.drain(..need).collect();
        // model step
        let mut expect: Option<u32> = None;
        if let Some(w) = model.w {
            model.outstanding += piece.len() as u64;
            model.fed_since_learned += piece.len() as u64;
            if model.outstanding >= w as u64 {
                expect = Some(model.outstanding.min(0xFFFF_FFFF) as u32);
                model.acked += model.outstanding;
                model.outstanding = 0;
            }
        }
        // A re-announcement of a smaller window that the outstanding bytes already reach: the
        // statement does not say whether the new window applies to the call that carries it, so an
        // acknowledgement of everything outstanding is accepted in this call or in the next one.
        let mut also_acceptable: Option<u32> = None;
        if let (Some(w_new), Some(_), None) = (learn_in_this_call, model.w, expect) {
            if model.outstanding >= w_new as u64 {
                also_acceptable = Some(model.outstanding.min(0xFFFF_FFFF) as u32);
            }
        }
        let r = packets_of(&mut h.sess, &piece, &mut h.clock);
        let packets = match r {
            Err((loc, msg)) => {
                out.violation(&panic_signature(&loc, &msg), json!({"panic_at": loc, "panic_message": msg, "history": witness(&log)}));
                return false;
            }
            Ok(Err(_)) if semantic_used => {
                // e.g. a refused createStream: the session reports it as an error by design
                out.count("histories_ended_by_session_error_on_protocol_traffic", 1);
                return true;
            }
            Ok(Err(e)) => {
                out.violation("session-error-on-valid-filler-traffic", json!({"error": e, "history": witness(&log)}));
                return false;
            }
            Ok(Ok(p)) => p,
        };
        let mut acks: Vec<u32> = Vec::new();
        for p in packets.iter() {
            match h.dec.feed(p) {
                Err(e) => {
                    out.violation("session-output-not-decodable", json!({"clause": e, "history": witness(&log)}));
                    return false;
                }
                Ok(ms) => {
                    for m in ms {
                        if m.type_id == 3 {
                            match msg::decode(3, &m.data) {
                                Ok(RMsg::Ack(v)) => acks.push(v),
                                _ => {
                                    out.violation("malformed-acknowledgement", json!({"history": witness(&log)}));
                                    return false;
                                }
                            }
                        }
                    }
                }
            }
        }
        if log.len() < 40 {
            log.push(json!({"bytes": piece.len(), "window_in_force": model.w, "acks_emitted": acks, "ack_expected": expect, "learns_window": learn_in_this_call}));
        }
        let got: Option<u32> = if acks.len() == 1 { Some(acks[0]) } else { None };
        if acks.len() > 1 {
            out.violation("several-acknowledgements-in-one-call", json!({"history": witness(&log)}));
            return false;
        }
        match (got, expect) {
            (None, None) => {}
            (Some(g), Some(e)) if g == e => {
                out.count("acknowledgements_matched", 1);
            }
            (Some(g), Some(e)) => {
                // beyond u32 the exact count is not representable: wrapped value tolerated too
                if model.acked > 0 && (g as u64) == (model.acked.wrapping_rem(1 << 32)) && e == 0xFFFF_FFFF {
                    out.count("acknowledgement_value_wrapped_beyond_u32", 1);
                } else {
                    out.violation("acknowledgement-reports-wrong-byte-count", json!({"reported": g, "bytes_since_previous_ack": e, "history": witness(&log)}));
                    return false;
                }
            }
            (Some(g), None) if also_acceptable == Some(g) => {
                out.count("acknowledgement_in_the_call_that_shrinks_the_window", 1);
                model.acked += model.outstanding;
                model.outstanding = 0;
            }
            (Some(_), None) if model.w.is_none() => {
                // the statement starts at the peer's announcement: a session that acknowledges
                // earlier (say under an assumed default window) is outside it, and what "since
                // the previous acknowledgement" then means is open - this history is not judged
                out.count("histories_not_judged_acknowledgement_before_any_announcement", 1);
                return true;
            }
            (Some(_), None) => {
                out.violation("acknowledgement-before-window-reached", json!({"history": witness(&log)}));
                return false;
            }
            (None, Some(_)) => {
                out.violation("no-acknowledgement-although-window-reached", json!({"history": witness(&log)}));
                return false;
            }
        }
        // invariants after every call
        if let Some(w) = model.w {
            if model.outstanding >= w as u64 {
                panic!("harness: model invariant outstanding < W broken");
            }
        }
        if model.acked + model.outstanding != model.fed_since_learned {
            panic!("harness: model conservation broken");
        }
        if let Some(w) = learn_in_this_call {
            model.w = Some(w);
            out.count(if model.fed_since_learned > 0 || model.acked > 0 { "window_reannouncements" } else { "window_announcements" }, 1);
        }
    }
    out.count("histories_ok", 1);
    out.count(if server { "server_histories" } else { "client_histories" }, 1);
    let _ = h.kind;
    true
}

fn call_size(rng: &mut Rng, w: u32, cap: usize) -> usize {
    let w = w as usize;
    match rng.below(9) {
        0 => 0,
        1 => 1,
        2 => w.saturating_sub(1),
        3 => w,
        4 => w.saturating_add(1),
        5 => w.saturating_mul(*[2usize, 2, 3, 4][w % 4..].first().unwrap_or(&2)).saturating_add([3usize, 0, 0, 1][w % 4]),
        6 => rng.usize(0, 50),
        7 => rng.usize(0, (2 * w).max(1)),
        _ => rng.usize(0, 3000),
    }
    .min(cap)
}

/// > 4 GiB of valid traffic with W = 2^32 - 1: reaches the counter arithmetic.
fn volume_run(server: bool, windows: u64, out: &mut Out) {
    volume_run_w(server, 0xFFFF_FFFF, windows * 0xFFFF_FFFFu64, out)
}

/// Window `w`, then at least `total` bytes in 16 MiB calls: every acknowledgement in exactly the
/// call that crosses the window, with the right count, also after the total passes 2^32.
pub fn volume_run_w(server: bool, w: u32, total: u64, out: &mut Out) {
    volume_run_opt(server, w, total, true, out)
}

/// `judge_acks`: false = only panics, errors and undecodable output are reported (C03's use: what
/// an acknowledgement says and when it comes is C17's statement, not C03's)
pub fn volume_run_opt(server: bool, w: u32, total: u64, judge_acks: bool, out: &mut Out) {
    out.eval(1);
    rml_rtmp::verif_hooks::set_clock_ms(Some(5));
    let mut enc = Encoder::new();
    let mut dec = Decoder::new(false);
    dec.keep_mtrace = false;
    let mut sess = if server {
        let (s, init) = ServerSession::new(ServerSessionConfig::new()).expect("new");
        for r in init {
            if let ServerSessionResult::OutboundResponse(p) = r {
                dec.feed(&p.bytes).expect("initial server packets decodable");
            }
        }
        Sess::Server(s)
    } else {
        Sess::Client(ClientSession::new(ClientSessionConfig::new()).expect("new").0)
    };
    let mut first = enc.encode_simple(&Msg { type_id: 1, msid: 0, ts: 0, data: 0x7FFF_FFFFu32.to_be_bytes().to_vec() }, 2);
    enc.chunk_size = 0x7FFF_FFFF;
    first.extend(enc.encode_simple(&Msg { type_id: 5, msid: 0, ts: 0, data: w.to_be_bytes().to_vec() }, 2));
    // one stateless block: a full (format 0) header + 16 MiB - 1 of an unknown message type
    let big = Msg { type_id: 22, msid: 0, ts: 0, data: vec![0xEE; 16_777_215] };
    let block = enc.encode_flat(&big, &crate::refs::chunk::Choice { csid: 9, form: crate::refs::chunk::CsidForm::Min, fmt: 0 });
    let mut clock = 1u64;
    let mut fed: u64 = 0;
    let mut outstanding: u64 = 0;
    let mut acks_seen = 0u64;
    let mut step = |sess: &mut Sess, bytes: &[u8], count: bool, outstanding: &mut u64, acks_seen: &mut u64, fed: u64, out: &mut Out| -> bool {
        let mut expect = None;
        if count {
            *outstanding += bytes.len() as u64;
            if *outstanding >= w as u64 {
                expect = Some(*outstanding);
                *outstanding = 0;
            }
        }
        match packets_of(sess, bytes, &mut clock) {
            Err((loc, msg)) => {
                out.violation(&panic_signature(&loc, &msg), json!({"panic_at": loc, "panic_message": msg, "volume_run": {"session": if server {"server"} else {"client"}, "window": w, "bytes_fed_before_this_call": fed, "call_bytes": bytes.len()}}));
                false
            }
            Ok(Err(e)) => {
                out.violation("session-error-on-valid-filler-traffic", json!({"error": e, "volume_run": true, "bytes_fed": fed}));
                false
            }
            Ok(Ok(packets)) => {
                let mut acks = Vec::new();
                for p in packets {
                    match dec.feed(&p) {
                        Ok(ms) => {
                            for m in ms {
                                if m.type_id == 3 && m.data.len() == 4 {
                                    acks.push(u32::from_be_bytes([m.data[0], m.data[1], m.data[2], m.data[3]]));
                                }
                            }
                        }
                        Err(e) => {
                            out.violation("session-output-not-decodable", json!({"clause": e, "volume_run": true}));
                            return false;
                        }
                    }
                }
                if !judge_acks {
                    *acks_seen += acks.len() as u64;
                    return true;
                }
                match (acks.len(), expect) {
                    (0, None) => true,
                    (1, Some(e)) => {
                        *acks_seen += 1;
                        let ok = acks[0] as u64 == e.min(0xFFFF_FFFF) || acks[0] as u64 == e % (1 << 32);
                        if !ok {
                            out.violation("acknowledgement-reports-wrong-byte-count", json!({"reported": acks[0], "bytes_since_previous_ack": e, "volume_run": true}));
                        }
                        ok
                    }
                    (n, e) => {
                        out.violation(
                            if n == 0 { "no-acknowledgement-although-window-reached" } else { "acknowledgement-before-window-reached" },
                            json!({"acks": acks, "expected": e, "volume_run": true, "bytes_fed": fed}),
                        );
                        false
                    }
                }
            }
        }
    };
    if !step(&mut sess, &first, false, &mut outstanding, &mut acks_seen, 0, out) {
        return;
    }
    // 2^32 - 1 bytes and a bit (thorough: twice that): the acknowledgement(s) must appear in
    // exactly the call that crosses the window, none early
    let blocks = (total / block.len() as u64) + 3;
    for _ in 0..blocks {
        if !step(&mut sess, &block, true, &mut outstanding, &mut acks_seen, fed, out) {
            return;
        }
        fed += block.len() as u64;
    }
    out.count("volume_runs_ok", 1);
    out.count("volume_run_acknowledgements", acks_seen);
    out.maxv("volume_run_bytes_fed", fed);
}

impl C17 {
    fn exhaustive_cases() -> u64 {
        64 * 2
    }
}

impl Check for C17 {
    fn id(&self) -> &'static str {
        "C17"
    }
    fn plan(&self, tier: Tier) -> Plan {
        let mut p = Plan::new(4 + Self::exhaustive_cases() + tier.pick(6_000, 3_000_000), tier.pick(35.0, 420.0));
        p.mandatory = 4 + Self::exhaustive_cases();
        p.cpu_budget_s = 240.0;
        p
    }
    fn run_case(&self, tier: Tier, k: u64, rng: &mut Rng, out: &mut Out) {
        let _cg = ClockGuard;
        if k == 2 || k == 3 {
            // acknowledgements every GiB, continuing past a total of 2^32 bytes received
            volume_run_w(k == 2, 1 << 30, (1u64 << 32) + (300 << 20), out);
            out.sample(|| json!({"kind": "volume run", "window": 1u32 << 30, "session": if k == 2 {"server"} else {"client"}, "bytes": "2^32 + 300 MiB in 16 MiB calls"}));
            return;
        }
        if k < 2 {
            volume_run(k == 0, tier.pick(1, 2), out);
            out.sample(|| json!({"kind": "volume run", "window": 0xFFFF_FFFFu32, "session": if k == 0 {"server"} else {"client"}, "bytes": "(2^32-1) + 48 MiB in 16 MiB calls (thorough: 2 x (2^32-1) + 48 MiB)"}));
            return;
        }
        let k2 = k - 4;
        if k2 < Self::exhaustive_cases() {
            // W = 1..64, every call-size pattern of length <= 4 over {0, 1, W-1, W, W+1}
            let w = (k2 / 2 + 1) as u32;
            let server = k2 % 2 == 0;
            let alphabet = [0usize, 1, (w - 1) as usize, w as usize, (w + 1) as usize];
            let mut n = 0u64;
            for len in 1..=4usize {
                let total = 5usize.pow(len as u32);
                for code in 0..total {
                    let mut c = code;
                    let mut calls = vec![0usize]; // call 0 carries the announcement
                    for _ in 0..len {
                        calls.push(alphabet[c % 5]);
                        c /= 5;
                    }
                    if !run_history(server, &[(0, w)], &calls, rng, out) {
                        return;
                    }
                    n += 1;
                }
            }
            out.count("exhaustive_small_window_patterns", n);
            out.shape(mix(0xE, k2));
            return;
        }
        // sampled windows, longer histories, re-announcements
        let server = rng.coin();
        let w: u32 = match rng.below(8) {
            0 => rng.range(1, 64) as u32,
            1 => rng.range(65, 1000) as u32,
            2 => rng.range(1000, 1_000_000) as u32,
            3 => 1 << 24,
            4 => 0x8000_0000,
            5 => 0xFFFF_FFFF,
            6 => 2_500_000,
            _ => rng.range(1, 5000) as u32,
        };
        let ncalls = rng.usize(2, 40);
        let cap = 100_000usize;
        let mut calls = vec![rng.usize(0, 100)];
        let prefix = if rng.coin() { Some(rng.usize(0, 9)) } else { None };
        let mut ann = vec![(rng.usize(0, if prefix.is_some() { 3 } else { 1 }), w)];
        let mut cur = w;
        for i in 1..ncalls {
            if rng.chance(1, 12) {
                cur = match rng.below(4) {
                    0 => cur / 2 + 1,
                    1 => cur.saturating_mul(2),
                    2 => rng.range(1, 3000) as u32,
                    _ => cur,
                };
                ann.push((i, cur));
            }
            calls.push(call_size(rng, cur, cap));
        }
        if ann[0].0 >= calls.len() {
            ann[0].0 = 0;
        }
        run_history_from(server, prefix, &ann, &calls, rng, out);
        let wc = match w {
            1..=64 => 0u64,
            65..=1000 => 1,
            1001..=1_000_000 => 2,
            _ => 3,
        };
        out.shape(mix(mix(server as u64, wc), mix(ann.len() as u64, calls.len() as u64)));
        out.sample(|| json!({"session": if server {"server"} else {"client"}, "prefix_state": prefix, "announcements(call,W)": ann, "call_sizes": calls}));
    }
    fn rule(&self) -> String {
        "both session kinds; the peer stream is reference-encoded: WindowAcknowledgement(W) at the start of a chosen call followed by valid filler traffic (ping requests/responses, acknowledgements, stream-begin and the other user-control events, set-buffer-length, unknown type-22 messages, set-peer-bandwidth of all three limit types with sizes around typical windows, abort, set-chunk-size). Exhaustive: W = 1..64 x every call-size pattern of length 1..4 over {0, 1, W-1, W, W+1} x {server, client} (99,840 histories). Sampled (half of them starting from a session in one of 10 state classes per kind reached by a valid prefix without a window announcement, the client with its own configured window in {1, 100, 5000, 2.5M, 2^30}; first announcement in call 0-3; a third of those also carry protocol traffic - answers to the client's requests with matching, stale and unknown transaction ids, status messages, a peer's connect/createStream/publish/play/closeStream/deleteStream - which may change the session's state but not its byte accounting): W from {1..64, 65..1000, 10^3..10^6, 2^24, 2^31, 2^32-1, 2.5M}, 2-40 calls with sizes from {0,1,W-1,W,W+1,2W+3,random} (capped at 100,000 bytes), window re-announcements mid-stream. Volume: W = 2^30 and 2^32 + 300 MiB bytes for each session kind (acknowledgements every GiB, past a total of 2^32 bytes); W = 2^32-1 and (2^32-1) + 48 MiB bytes (thorough: 2 x (2^32-1) + 48 MiB) in 16 MiB calls for each session kind. The acknowledgements of every call are extracted by independently decoding the returned packets. distinct = (session kind, window class, #announcements, #calls).".to_string()
    }
    fn assumptions(&self) -> Vec<String> {
        vec![
            "call-granular reading (DESIGN section 5): the call that carries the first window announcement is not counted; a re-announcement does not reset the count and takes effect from the next call - or, when it shrinks the window below what is already outstanding, optionally in the call that carries it (both accepted)".to_string(),
            "when the byte count exceeds 2^32-1 (only possible for W near 2^32) the reported value may be saturated or taken modulo 2^32".to_string(),
        ]
    }
    fn required_counters(&self, _tier: Tier) -> Vec<String> {
        vec![
            "histories_ok".into(),
            "server_histories".into(),
            "client_histories".into(),
            "acknowledgements_matched".into(),
            "exhaustive_small_window_patterns".into(),
            "window_reannouncements".into(),
            "histories_from_a_session_state_reached_by_a_prefix".into(),
            "histories_with_protocol_traffic".into(),
            "volume_runs_ok".into(),
        ]
    }
    fn exhaustive_part(&self, _tier: Tier) -> Option<String> {
        Some("W = 1..64 x all call-size patterns of length <= 4 over {0,1,W-1,W,W+1} x both session kinds".to_string())
    }
}
