//! C04 - AMF0 encode then decode is the identity (or encoding reports an error).

use crate::fw::{lib_call, Check, Out, Plan, Tier};
use crate::refs::amf::{self, GenCfg, V};
use crate::rng::{hex_short, Rng};
use serde_json::json;

pub struct C04;

const BATCH: usize = 100;

fn nontrivial(vs: &[V]) -> bool {
    vs.iter().any(|v| v.depth() >= 1 || amf::approx_size(v) > 300 || matches!(v, V::Num(b) if f64::from_bits(*b).is_nan() || *b == 0x8000000000000000))
}

pub fn check_one(vs: &[V], out: &mut Out) {
    out.eval(1);
    let enc = lib_call(out, "rml_amf0::serialize", || amf::seq_json(vs), || amf::lib_encode(vs));
    let enc = match enc {
        Some(e) => e,
        None => return,
    };
    let expressible = vs.iter().all(amf::expressible);
    match enc {
        Err(_) => {
            out.count("encode_refused", 1);
            if expressible {
                out.count("encode_refused_although_expressible", 1);
            }
        }
        Ok(bytes) => {
            out.count("encode_ok", 1);
            if !expressible {
                out.count("encode_ok_for_inexpressible_value", 1);
            }
            let dec = lib_call(
                out,
                "rml_amf0::deserialize",
                || json!({"values": amf::seq_json(vs), "bytes": hex_short(&bytes, 96)}),
                || amf::lib_decode(&bytes),
            );
            let dec = match dec {
                Some(d) => d,
                None => return,
            };
            match dec {
                Err(e) => out.violation(
                    "encode-ok-but-decode-fails",
                    json!({"values": amf::seq_json(vs), "bytes": hex_short(&bytes, 160), "decode_error": e}),
                ),
                Ok((got, pos)) => {
                    let want = amf::seq_canon(vs);
                    if got != want {
                        let class = amf::seq_diff_class(&got, &want);
                        out.violation(
                            &format!("encode-ok-but-decodes-to-something-else:{}", class),
                            json!({"values": amf::seq_json(vs), "bytes": hex_short(&bytes, 160), "decoded": amf::seq_json(&got)}),
                        );
                    } else if pos != bytes.len() {
                        out.violation(
                            "encode-ok-but-decode-leaves-bytes-unread",
                            json!({"values": amf::seq_json(vs), "bytes": hex_short(&bytes, 160), "consumed": pos, "length": bytes.len()}),
                        );
                    } else {
                        out.count("round_trips_exact", 1);
                    }
                }
            }
        }
    }
}

impl Check for C04 {
    fn id(&self) -> &'static str {
        "C04"
    }
    fn plan(&self, tier: Tier) -> Plan {
        let mut p = Plan::new(tier.pick(16_000, 2_000_000), tier.pick(25.0, 360.0));
        p.mandatory = 2;
        p
    }
    fn selftest(&self) -> Result<(), String> {
        amf::selftest()
    }
    fn run_case(&self, _tier: Tier, k: u64, rng: &mut Rng, out: &mut Out) {
        if k == 0 {
            // fixed boundary cases, always run
            let long = |n: usize| "x".repeat(n);
            let fixed: Vec<Vec<V>> = vec![
                vec![],
                vec![V::Str(String::new())],
                vec![V::Str(long(65535))],
                vec![V::Str(long(65536))],
                vec![V::Str(long(70000))],
                vec![V::Obj(vec![])],
                vec![V::Obj(vec![(String::new(), V::Null)])],
                vec![V::Obj(vec![(String::new(), V::Num(0))]), V::Bool(true)],
                vec![V::Obj(vec![(long(65535), V::Null)])],
                vec![V::Obj(vec![(long(65536), V::Null)])],
                vec![V::Obj(vec![(long(65538), V::Bool(true))])],
                vec![V::Obj(vec![(long(70000), V::Str("v".into()))])],
                vec![V::Obj(vec![("a".into(), V::Obj(vec![(String::new(), V::Undef)]))])],
                vec![V::Arr(vec![])],
                vec![V::Arr(vec![V::Obj(vec![(long(65537), V::Null)])])],
                vec![V::Num(0x7FF0000000000001), V::Num(0xFFF8DEADBEEF0001), V::Num(0x8000000000000000)],
                vec![V::Obj(vec![("é中😀".into(), V::Str("\0a\0".into()))])],
                vec![V::Arr((0..300).map(|i| V::Num((i as f64).to_bits())).collect())],
            ];
            let mut fixed = fixed;
            // nesting around any depth limit the codec may have (both sides must agree)
            for n in [1usize, 8, 64, 126, 127, 128, 129, 130, 131, 255, 256, 257, 500, 1000] {
                let mut a = V::Null;
                let mut o = V::Bool(true);
                let mut mixed = V::Undef;
                for i in 0..n {
                    a = V::Arr(vec![a]);
                    o = V::Obj(vec![("p".to_string(), o)]);
                    mixed = if i % 2 == 0 { V::Arr(vec![V::Null, mixed]) } else { V::Obj(vec![("q".to_string(), mixed)]) };
                }
                fixed.push(vec![a]);
                fixed.push(vec![o]);
                fixed.push(vec![V::Null, mixed]);
                // other leaves under the same nesting: arrays of numbers, strings, empty containers
                for leaf in [V::Arr(vec![V::Num(1.5f64.to_bits())]), V::Arr(vec![V::Num(0), V::Num(1)]), V::Str("leaf".into()), V::Arr(vec![]), V::Obj(vec![]), V::Num(7)] {
                    let mut x = leaf.clone();
                    let mut y = leaf;
                    for i in 0..n {
                        x = V::Arr(vec![x]);
                        y = if i % 2 == 0 { V::Obj(vec![("k".to_string(), y)]) } else { V::Arr(vec![y]) };
                    }
                    fixed.push(vec![x]);
                    fixed.push(vec![y]);
                }
            }
            out.count("deep_nesting_cases", 14 * 3);
            for vs in fixed.iter() {
                check_one(vs, out);
                out.shape(amf::shape_hash(vs));
            }
            out.count("fixed_boundary_cases", fixed.len() as u64);
            return;
        }
        if k == 1 {
            // encodings longer than the largest RTMP message (2^24-1 bytes): the codec itself has no
            // such limit, and a value boundary exactly at 2^24-1 / 2^24 must not end the decoding
            let full = "y".repeat(65535);
            let mut big: Vec<Vec<V>> = Vec::new();
            big.push((0..257).map(|_| V::Str(full.clone())).collect());
            for target in [(1usize << 24) - 1, 1 << 24, (1 << 24) + 1] {
                let mut vs: Vec<V> = (0..255).map(|_| V::Str(full.clone())).collect();
                let used = 255 * 65538;
                vs.push(V::Str("z".repeat(target - used - 3)));
                vs.push(V::Null);
                vs.push(V::Num(1f64.to_bits()));
                vs.push(V::Str("tail".into()));
                big.push(vs);
            }
            big.push(vec![V::Arr((0..2_000_000).map(|i| V::Num((i as f64).to_bits())).collect()), V::Bool(true)]);
            big.push(vec![V::Obj((0..300).map(|i| (format!("p{}", i), V::Str(full.clone()))).collect()), V::Undef]);
            // more than 65,536 of something small: properties, top-level values, elements that are containers
            big.push(vec![V::Obj((0..65_537).map(|i| (format!("k{}", i), V::Num(i as u64))).collect()), V::Bool(false)]);
            big.push((0..65_537).map(|i| if i % 2 == 0 { V::Null } else { V::Num(i as u64) }).collect());
            big.push(vec![V::Arr((0..65_537).map(|i| if i % 3 == 0 { V::Arr(vec![]) } else { V::Obj(vec![("a".to_string(), V::Null)]) }).collect())]);
            for vs in big.iter() {
                check_one(vs, out);
            }
            out.count("encodings_longer_than_16_MiB", big.len() as u64);
            return;
        }
        for i in 0..BATCH {
            let cfg = GenCfg {
                max_depth: rng.usize(1, 6),
                max_children: rng.usize(2, 8),
                inexpressible: i % 3 == 0,
                long_strings: i % 4 == 0,
            };
            let vs = amf::gen_seq(rng, &cfg);
            check_one(&vs, out);
            if nontrivial(&vs) {
                out.shape(amf::shape_hash(&vs));
            }
            if i == 0 {
                out.sample(|| json!({"values": amf::seq_json(&vs), "encoded_by_library": match amf::lib_encode(&vs) { Ok(b) => hex_short(&b, 80), Err(e) => format!("Err({})", e) }}));
            }
        }
    }
    fn rule(&self) -> String {
        "sequences of 0-6 AMF0 values, nesting depth <= 6: numbers from raw 64-bit patterns (NaNs with payloads, signed zero, infinities, subnormals, integers), booleans, strings and property names with lengths in {0,1,..,300,65533..65538,70000} built from 1-4 byte UTF-8 sequences and NULs, objects of 0-8 properties, arrays of 0-300 elements; objects shaped like Flash associative arrays (keys 0..n-1 plus length n, n+1 or n-1) and property names code may treat specially (length, 0, __proto__, name, type, code ...); six sequences whose encoding is longer than 16 MiB (257 strings of 65,535 bytes; a value boundary exactly at 2^24-1, 2^24 and 2^24+1 with values behind it; an array of 2 M numbers; an object of 300 long strings), and three with more than 65,536 of something small (properties, top-level values, container elements); plus 18 fixed boundary cases and arrays/objects/mixed containers nested {1,8,64,126..131,255..257,500,1000} deep. A case is non-trivial when it nests, carries a special number or a long string; distinct = distinct structural hash (type multiset, depth, length classes).".to_string()
    }
    fn assumptions(&self) -> Vec<String> {
        vec![
            "objects are compared as unordered name->value maps; generated objects have unique names".to_string(),
            "an Err from serialize is acceptable for C04 (whether it is the right refusal is C12/C19)".to_string(),
        ]
    }
    fn required_counters(&self, _tier: Tier) -> Vec<String> {
        vec!["round_trips_exact".into(), "encode_refused".into(), "fixed_boundary_cases".into(), "deep_nesting_cases".into(), "encodings_longer_than_16_MiB".into()]
    }
}
