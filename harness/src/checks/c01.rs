//! C01 - chunk codec round trip: real serializer -> bytes -> real deserializer, any partition.

use super::chunkgen::{self, GenCfg, Op};
use crate::adapt::lib_feed;
use crate::fw::{lib_call, Check, Out, Plan, Tier};
use crate::refs::chunk::{self, Decoder, Msg};
use crate::rng::{mix, partition, Rng};
use rml_rtmp::chunk_io::ChunkDeserializer;
use serde_json::json;

pub struct C01;

/// Deliver `bytes` in `parts` to a fresh real deserializer, applying chunk-size changes by
/// position (`scs[i]` = Some(size) when message i is a chunk-size announcement).
pub fn lib_decode_partitioned(bytes: &[u8], parts: &[usize], scs: &[Option<u32>]) -> Result<Vec<Msg>, (String, Vec<Msg>)> {
    let mut d = ChunkDeserializer::new();
    let mut got: Vec<Msg> = Vec::new();
    let mut pos = 0usize;
    for &n in parts {
        let piece = &bytes[pos..pos + n];
        pos += n;
        let mut idx = got.len();
        let r = lib_feed(&mut d, piece, &mut got, |d, m| {
            // the receiver honours the *decoded* size of the serializer's announcements
            if let Some(Some(_)) = scs.get(idx) {
                if let Some(size) = chunkgen::announced_size(m) {
                    let _ = d.set_max_chunk_size(size);
                }
            }
            idx += 1;
        });
        if let Err(e) = r {
            return Err((e, got));
        }
    }
    // Nothing may be pending: every piece was drained the documented way (empty calls until
    // None), so a message that only comes out of one more call was withheld behind a None.
    let before = got.len();
    let r = lib_feed(&mut d, &[], &mut got, |_, _| {});
    if let Err(e) = r {
        return Err((e, got));
    }
    if got.len() != before {
        return Err((format!("{} message(s) delivered only by a further call after get_next_message had returned None with all input given", got.len() - before), got));
    }
    Ok(got)
}

/// fmt/ext/chunking shape of a serialized history as seen by the independent decoder
pub fn observe_shape(packets: &[Vec<u8>], scs: &[Option<u32>], out: &mut Out, prefix: &str) -> Option<u64> {
    let mut d = Decoder::new(false);
    d.apply_scs = false;
    let mut h = 0u64;
    let mut nontrivial = false;
    for (i, p) in packets.iter().enumerate() {
        let before = d.mtrace.len();
        if d.feed(p).is_err() {
            return None;
        }
        for t in &d.mtrace[before..] {
            let chunks_bucket = match t.chunks {
                1 => 0u64,
                2 => 1,
                3..=9 => 2,
                _ => 3,
            };
            let cs_bucket = match t.chunk_size {
                1 => 0u64,
                2..=127 => 1,
                128 => 2,
                129..=65535 => 3,
                _ => 4,
            };
            h = mix(h, mix(t.csid as u64 * 64 + t.fmt as u64 * 8 + t.ext as u64 * 4 + (t.cont_fmt0 > 0) as u64, chunks_bucket * 8 + cs_bucket));
            if t.fmt != 0 || t.ext || t.chunks > 1 {
                nontrivial = true;
            }
            if t.wrapped_delta {
                out.count(&format!("{}delta_header_with_wrapped_negative_delta", prefix), 1);
            }
            if t.cont_fmt0 > 0 {
                out.count(&format!("{}fmt0_continuation_chunks", prefix), t.cont_fmt0 as u64);
            }
        }
        if let Some(Some(size)) = scs.get(i) {
            d.chunk_size = *size as usize;
            nontrivial = true;
        }
    }
    chunk::matrix_counters(&d.matrix, prefix, out);
    if nontrivial {
        Some(h)
    } else {
        None
    }
}

pub fn run_history(ops: &[Op], rng: &mut Rng, out: &mut Out, nparts: usize) {
    out.eval(1);
    let witness = || chunkgen::ops_json(ops);
    let ser = chunkgen::serialize_history(ops, out, &witness);
    if !ser.all_ok {
        return;
    }
    let expected: Vec<Msg> = ops.iter().map(|o| o.expected()).collect();
    let scs: Vec<Option<u32>> = ops.iter().map(|o| if let Op::SetChunk { size, .. } = o { Some(*size) } else { None }).collect();
    let mut bytes = Vec::new();
    let mut pk: Vec<Vec<u8>> = Vec::new();
    for (i, p) in ser.packets.iter().enumerate() {
        let p = p.as_ref().unwrap();
        if p.bytes.is_empty() {
            out.violation(
                "accepted-message-yields-empty-packet",
                json!({"op_index": i, "op": ops[i].to_json(), "history": witness()}),
            );
        }
        let want_drop = matches!(ops[i], Op::Msg { drop: true, .. });
        if p.can_be_dropped != want_drop {
            // what the mark must guarantee is C08's and C18's; here it is only observed
            out.count("packet_droppable_flag_differs_from_request", 1);
        }
        bytes.extend_from_slice(&p.bytes);
        pk.push(p.bytes.clone());
    }
    out.count("messages_serialized", ops.len() as u64);
    out.maxv("largest_payload", expected.iter().map(|m| m.data.len() as u64).max().unwrap_or(0));
    if let Some(h) = observe_shape(&pk, &scs, out, "lib_output_") {
        out.shape(h);
    }
    // partitions: whole, per packet, and random kinds
    let mut partitions: Vec<(String, Vec<usize>)> = Vec::new();
    partitions.push(("whole".into(), vec![bytes.len()]));
    partitions.push(("per-packet".into(), pk.iter().map(|p| p.len()).collect()));
    for j in 0..nparts {
        let kind = 1 + rng.below(5) as u32;
        let _ = j;
        partitions.push((format!("kind{}", kind), partition(rng, bytes.len(), kind)));
    }
    for (name, parts) in partitions.iter() {
        out.count("partitions_run", 1);
        let r = lib_call(out, "ChunkDeserializer::get_next_message", || json!({"partition": name, "history": witness()}), || {
            lib_decode_partitioned(&bytes, parts, &scs)
        });
        let r = match r {
            Some(r) => r,
            None => return,
        };
        match r {
            Err((e, got)) => {
                out.violation(
                    "deserializer-error-on-own-serializer-output",
                    json!({"error": e, "partition": name, "messages_before_error": got.len(), "history": witness()}),
                );
                return;
            }
            Ok(got) => {
                let mut expected = expected.clone();
                let is_ann: Vec<bool> = scs.iter().map(|x| x.is_some()).collect();
                chunkgen::accept_announced_sizes(&mut expected, &got, &is_ann, out);
                if let Some(class) = chunk::first_difference_class(&got, &expected) {
                    out.violation(
                        &format!("round-trip-differs:{}", class),
                        json!({"difference": chunk::first_difference(&got, &expected), "partition": name, "pieces": parts.len(), "history": witness()}),
                    );
                    return;
                }
            }
        }
    }
    out.count("histories_round_tripped", 1);
}

impl Check for C01 {
    fn id(&self) -> &'static str {
        "C01"
    }
    fn plan(&self, tier: Tier) -> Plan {
        let mut p = Plan::new(tier.pick(200_000, 20_000_000), tier.pick(30.0, 420.0));
        p.mandatory = 1;
        p.cpu_budget_s = 120.0;
        p
    }
    fn selftest(&self) -> Result<(), String> {
        chunk::selftest()
    }
    fn run_case(&self, tier: Tier, k: u64, rng: &mut Rng, out: &mut Out) {
        if k == 0 {
            // fixed boundary histories, always run
            let mk = |type_id: u8, msid: u32, ts: u32, len: usize| Op::Msg {
                m: Msg { type_id, msid, ts, data: (0..len).map(|i| i as u8).collect() },
                force: false,
                drop: false,
            };
            let fixed: Vec<Vec<Op>> = vec![
                vec![mk(8, 1, 0, 0)],
                vec![mk(8, 1, 5, 3), mk(8, 1, 5, 0), mk(8, 1, 10, 3)],
                vec![mk(9, 1, 0xFFFFFE, 1), mk(9, 1, 0xFFFFFF, 1), mk(9, 1, 0x1000000, 1), mk(9, 1, 0x2000000, 1)],
                vec![mk(9, 1, 0xFFFF_FFF0, 200), mk(9, 1, 5, 200), mk(9, 1, 26, 200), mk(9, 1, 47, 200)],
                vec![Op::SetChunk { size: 1, ts: 0 }, mk(20, 0, 1, 5), Op::SetChunk { size: 0x7FFF_FFFF, ts: 0 }, mk(20, 0, 2, 70000)],
                vec![mk(8, 1, 100, 128), mk(8, 1, 200, 128), mk(8, 1, 300, 128), mk(8, 1, 400, 129)],
                vec![mk(18, 1, 0x1000000, 300), mk(18, 1, 0x2000000, 300), mk(18, 1, 0x3000000, 300)],
                vec![mk(8, 1, 1000, 4), mk(8, 1, 500, 4), mk(8, 1, 0, 4)],
            ];
            for ops in fixed.iter() {
                run_history(ops, rng, out, 4);
            }
            out.count("fixed_boundary_histories", fixed.len() as u64);
            // large chunk sizes x large payloads: one message in a single chunk (or two) around
            // 2^23, 2^24 and the protocol's largest message
            for (size, len) in [(0x80_0000u32, 0x80_0001usize), (0x80_0001, 0x80_0001), (0xFF_FFFF, 16_777_215), (0x100_0000, 16_777_215), (0x7FFF_FFFF, 16_777_215), (0x7FFF_FFFF, 9_000_000)] {
                let ops = vec![Op::SetChunk { size, ts: 0 }, mk(9, 1, 5, len), mk(8, 1, 6, 3)];
                run_history(&ops, rng, out, 2);
                out.count("large_chunk_large_payload_histories", 1);
            }
            // chunk sizes of one to a few MiB with messages of two to four such chunks, in pieces
            // that end inside the chunks (every partition style caps its number of pieces)
            for (size, len) in [(0x10_0001u32, 0x20_0007usize), (0x10_0001, 0x10_0002), (1_500_000, 3_300_000), (0x20_0000, 0x60_0001), (0x40_0000, 0x40_0001), (3_000_000, 9_000_001)] {
                let ops = vec![Op::SetChunk { size, ts: 0 }, mk(9, 1, 5, len), mk(8, 1, 6, 3), mk(9, 1, 7, len - 1)];
                run_history(&ops, rng, out, 4);
                out.count("megabyte_chunks_delivered_in_pieces", 1);
            }
            // one message cut into more than 65,536 chunks (counters and per-call bounds), delivered
            // whole, per packet and in random pieces
            for (size, len) in [(1u32, 65_536usize), (1, 65_537), (1, 70_000), (2, 131_073), (3, 200_000)] {
                let ops = vec![Op::SetChunk { size, ts: 0 }, mk(9, 1, 5, len), mk(8, 1, 6, 3)];
                run_history(&ops, rng, out, 2);
                out.count("histories_with_a_message_of_more_than_65536_chunks", 1);
            }
            if tier == Tier::Thorough {
                // the largest message the protocol allows, through tiny and huge chunk sizes
                let big = vec![Op::SetChunk { size: 65536, ts: 0 }, mk(9, 1, 77, 16_777_215), mk(9, 1, 78, 1)];
                run_history(&big, rng, out, 1);
                out.count("max_size_message_histories", 1);
            }
            return;
        }
        let big = tier == Tier::Thorough && k % 5000 == 17;
        let cfg = GenCfg {
            max_ops: if big { 4 } else { 40 },
            allow_user_type1: true,
            drop_pct: 20,
            max_payload: if big { 16_777_215 } else if k % 50 == 0 { 1 << 20 } else { 70_000 },
            max_chunks: if big { 1 << 24 } else { 3000 },
            set_chunk_pct: 12,
        };
        let ops = chunkgen::gen_history(rng, &cfg);
        run_history(&ops, rng, out, 3);
        out.sample(|| json!({"history": chunkgen::ops_json(&ops[..ops.len().min(6)]), "ops_total": ops.len()}));
    }
    fn rule(&self) -> String {
        "histories of 1-40 operations Msg{type 0..255, msid, ts, payload, force_uncompressed, can_be_dropped} | set_max_chunk_size{1..2^31-1}: runs on the same chunk stream with equal/different msid and length, timestamp steps {0, repeat, 1, 33, 40, 0xFFFFFE, 0xFFFFFF, 0x1000000, backwards, across 2^32, 2^31-1, random}, lengths {0, 1, size-1, size, size+1, 2*size, 2*size+1, 3*size-1, <=70000, rarely <=1 MiB; thorough: 16,777,215}, chunk sizes {1,2,3,31,127,128,129,1000,4096,65536,2^24-1,2^24,2^24+..,2^31-1, uniform}; plus fixed histories pairing chunk sizes {2^23, 2^23+1, 2^24-1, 2^24, 2^31-1} with payloads {2^23+1, 9,000,000, 16,777,215}, and chunk sizes of 1-4 MiB with messages of two to four chunks; each delivered whole, per packet and in 3 random partitions (byte-by-byte, small pieces, mixed with empty calls, two pieces, few large). Non-trivial = a compressed header, an extended timestamp, a multi-chunk message or a size change was observed in the library's bytes (by the independent decoder); distinct = hash of the per-message (csid, fmt, ext, chunk-count bucket, chunk-size bucket) sequence.".to_string()
    }
    fn assumptions(&self) -> Vec<String> {
        vec![
            "chunk-size changes are applied to the deserializer by position (the decoded message that corresponds to a set_max_chunk_size call), as the statement says 'each decoded chunk-size change'; user messages that merely carry type id 1 are payloads".to_string(),
        ]
    }
    fn required_counters(&self, _tier: Tier) -> Vec<String> {
        vec!["histories_round_tripped".into(), "fixed_boundary_histories".into(), "large_chunk_large_payload_histories".into(), "partitions_run".into()]
    }
    fn soft_counters(&self, _tier: Tier) -> Vec<String> {
        vec![
            "lib_output_fmt0_noext_first".into(),
            "lib_output_fmt1_noext_first".into(),
            "lib_output_fmt2_noext_first".into(),
            "lib_output_fmt3_noext_first".into(),
            "lib_output_fmt3_noext_continuation".into(),
            "lib_output_fmt0_ext_first".into(),
            "lib_output_fmt1_ext_first".into(),
            "lib_output_fmt2_ext_first".into(),
            "lib_output_fmt3_ext_continuation".into(),
        ]
    }
}
