//! C11 - generated handshake packets carry valid FP9 digests and signatures.
//! Oracle: independent SHA-256/HMAC and offset rules.  All 728 offsets (every selector sum
//! 0..=1020) of both schemes are produced through the deterministic fill hook.

use crate::fw::{lib_call, Check, Out, Plan, Tier};
use crate::refs::sha::{self, Role, Scheme, PACKET};
use crate::rng::{hex_short, mix, Rng};
use rml_rtmp::handshake::{Handshake, HandshakeProcessResult, PeerType};
use serde_json::json;

pub struct C11;

pub fn peer_type(r: Role) -> PeerType {
    match r {
        Role::Client => PeerType::Client,
        Role::Server => PeerType::Server,
    }
}

pub fn other(r: Role) -> Role {
    match r {
        Role::Client => Role::Server,
        Role::Server => Role::Client,
    }
}

pub struct FillGuard;
impl Drop for FillGuard {
    fn drop(&mut self) {
        rml_rtmp::verif_hooks::set_fill(None);
    }
}

/// Install a seeded fill.  `selector`: Some((role, sum)) forces the four selector bytes the
/// library's own packet 1 of that role uses to add up to `sum` (the fill buffer for packet 1 is
/// bytes 8..1532 of the packet, so client selector = buffer[0..4], server selector = buffer[764..768]).
pub fn install_fill(seed: u64, selector: Option<(Role, usize)>) -> FillGuard {
    let mut r = Rng::new(seed);
    rml_rtmp::verif_hooks::set_fill(Some(Box::new(move |buf: &mut [u8]| {
        r.fill(buf);
        if buf.len() == 1524 {
            if let Some((role, sum)) = selector {
                let base = match role {
                    Role::Client => 0,
                    Role::Server => 764,
                };
                let mut rest = sum;
                for i in 0..4 {
                    let v = rest.min(255);
                    buf[base + i] = v as u8;
                    rest -= v;
                }
            }
        }
    })));
    FillGuard
}

thread_local! {
    /// injected delay: how long a handshake object is left alone between its creation and its
    /// first use (a server object created at accept and used when the first bytes arrive)
    static AGE_MS: std::cell::Cell<u64> = std::cell::Cell::new(0);
}

fn age() {
    let ms = AGE_MS.with(|a| a.get());
    if ms > 0 {
        std::thread::sleep(std::time::Duration::from_millis(ms));
    }
}

/// The library generates packet 1 as `role`; judge it.
fn own_p1(role: Role, sum: Option<usize>, seed: u64, out: &mut Out) {
    out.eval(1);
    let _g = sum.map(|s| install_fill(seed, Some((role, s))));
    let r = lib_call(out, "Handshake::generate_outbound_p0_and_p1", || json!({"role": format!("{:?}", role), "selector_sum": sum, "fill_seed": seed}), || {
        let mut h = Handshake::new(peer_type(role));
        age();
        h.generate_outbound_p0_and_p1().map_err(|e| format!("{:?}", e))
    });
    let bytes = match r {
        Some(Ok(b)) => b,
        Some(Err(e)) => {
            out.violation("generate-p0-p1-fails", json!({"error": e}));
            return;
        }
        None => return,
    };
    if bytes.len() != 1 + PACKET || bytes[0] != 3 {
        out.violation("p0-p1-wrong-shape", json!({"len": bytes.len(), "first": bytes.first()}));
        return;
    }
    let p1 = &bytes[1..];
    let found = sha::find_digest(p1, &sha::role_p1_key(role));
    if found.is_empty() {
        let wrong_key = !sha::find_digest(p1, &sha::role_p1_key(other(role))).is_empty();
        out.violation(
            if wrong_key { "own-p1-digest-keyed-for-the-other-role" } else { "own-p1-carries-no-valid-digest" },
            json!({"role": format!("{:?}", role), "selector_sum": sum, "fill_seed": seed,
                "offset_scheme_at8": sha::digest_offset(p1, Scheme::At8), "offset_scheme_at772": sha::digest_offset(p1, Scheme::At772),
                "p1_head": hex_short(&p1[..16], 64)}),
        );
        return;
    }
    for (scheme, off, _) in found.iter() {
        out.count(&format!("own_p1_{:?}_digest_valid_{:?}", role, scheme), 1);
        out.shape(mix(mix(1, role as u64), mix(*scheme as u64, *off as u64)));
        if let Some(s) = sum {
            let want = s % 728 + if *scheme == Scheme::At8 { 12 } else { 776 };
            if *off == want {
                out.count("own_p1_offset_as_selected", 1);
            }
        }
    }
}

/// The library (as `lib_role`) answers a received packet 1; judge its packet 2.
fn answer(lib_role: Role, p1: &[u8], expect_digest: Option<[u8; 32]>, what: &str, seed: u64, pregenerate: bool, out: &mut Out) {
    out.eval(1);
    let _g = install_fill(seed ^ 0xabcdef, None);
    let ctx = || json!({"library_role": format!("{:?}", lib_role), "received_p1": what, "p1_head": hex_short(&p1[..16], 64)});
    let r = lib_call(out, "Handshake::process_bytes", &ctx, || {
        let mut h = Handshake::new(peer_type(lib_role));
        age();
        let mut pre = 0;
        if pregenerate {
            pre = h.generate_outbound_p0_and_p1().map(|b| b.len()).unwrap_or(0);
        }
        let mut input = vec![3u8];
        input.extend_from_slice(p1);
        // how the bytes are grouped into calls is the transport's business: in a third of the
        // answers the call that completes packet 1 already carries the first 1-1535 bytes of the
        // peer's packet 2, in another sixth packet 1 arrives in two calls
        match seed % 6 {
            0 | 1 => {
                let extra = 1 + (seed / 6 % 1535) as usize;
                input.extend((0..extra).map(|i| (i as u64 * 131 + seed) as u8));
                (h.process_bytes(&input).map_err(|e| format!("{:?}", e)), pre)
            }
            2 => {
                let cut = 1 + (seed / 6 % 1536) as usize;
                match h.process_bytes(&input[..cut]) {
                    Ok(HandshakeProcessResult::InProgress { response_bytes }) if response_bytes.is_empty() || !pregenerate => {
                        let first = response_bytes;
                        let r = h.process_bytes(&input[cut..]).map_err(|e| format!("{:?}", e));
                        // what was returned by the first call belongs in front
                        (
                            r.map(|x| match x {
                                HandshakeProcessResult::InProgress { response_bytes } => {
                                    let mut all = first.clone();
                                    all.extend_from_slice(&response_bytes);
                                    HandshakeProcessResult::InProgress { response_bytes: all }
                                }
                                other => other,
                            }),
                            pre,
                        )
                    }
                    other => (other.map_err(|e| format!("{:?}", e)), pre),
                }
            }
            _ => (h.process_bytes(&input).map_err(|e| format!("{:?}", e)), pre),
        }
    });
    let (r, pre) = match r {
        Some(x) => x,
        None => return,
    };
    let resp = match r {
        Ok(HandshakeProcessResult::InProgress { response_bytes }) => response_bytes,
        Ok(HandshakeProcessResult::Completed { .. }) => {
            out.violation("completed-after-packet-1-only", ctx());
            return;
        }
        Err(e) => {
            out.violation("packet-1-refused", json!({"error": e, "context": ctx()}));
            return;
        }
    };
    let want_len = if pregenerate { PACKET } else { 1 + 2 * PACKET };
    if resp.len() != want_len || (pregenerate && pre != 1 + PACKET) {
        out.violation("answer-to-packet-1-has-wrong-length", json!({"len": resp.len(), "want": want_len, "context": ctx()}));
        return;
    }
    let p2 = &resp[resp.len() - PACKET..];
    match expect_digest {
        Some(d) => {
            let want = sha::p2_signature(lib_role, &d, p2);
            if p2[PACKET - 32..] != want[..] {
                // diagnose common confusions for the witness
                let as_other = sha::p2_signature(other(lib_role), &d, p2);
                let note = if p2[PACKET - 32..] == as_other[..] { "signature is keyed for the other role" } else if p2 == p1 { "packet 2 is an echo" } else { "signature matches no known derivation" };
                out.violation(
                    "p2-signature-invalid",
                    json!({"note": note, "context": ctx(), "peer_digest": crate::rng::hex(&d), "p2_tail": crate::rng::hex(&p2[PACKET - 32..]), "expected_tail": crate::rng::hex(&want)}),
                );
                return;
            }
            out.count("p2_signatures_valid", 1);
        }
        None => {
            if p2 != p1 {
                let at = p2.iter().zip(p1.iter()).position(|(a, b)| a != b).unwrap_or(0);
                out.violation("p2-for-digestless-p1-is-not-an-echo", json!({"first_difference_at": at, "context": ctx()}));
                return;
            }
            out.count("p2_echoes_exact", 1);
        }
    }
}

/// Two less usual uses of one handshake object: (a) the peer's packet 1 is derived from ours - a
/// copy of the packet 1 we generated, with the peer's own valid digest stamped in the *other*
/// scheme - and must be answered with a signed packet 2 like any digest-bearing packet 1; (b)
/// packet 1 is generated again after a packet 1 has been answered, and must carry a valid digest
/// like any packet 1 the library generates.
fn derived_and_regenerated(lib_role: Role, seed: u64, out: &mut Out) {
    out.eval(1);
    let _g = install_fill(seed, None);
    let ctx = || json!({"library_role": format!("{:?}", lib_role), "received_p1": "copy of the library's own packet 1 with the peer's valid digest stamped in the other scheme", "fill_seed": seed});
    let r = lib_call(out, "Handshake::process_bytes", &ctx, || -> Result<(Vec<u8>, Result<HandshakeProcessResult, String>, Result<Vec<u8>, String>, [u8; 32]), String> {
        let mut h = Handshake::new(peer_type(lib_role));
        let own = h.generate_outbound_p0_and_p1().map_err(|e| format!("{:?}", e))?;
        let mut copy = own[1..].to_vec();
        let ours = sha::find_digest(&copy, &sha::role_p1_key(lib_role));
        let scheme = match ours.first() {
            Some((Scheme::At8, _, _)) => Scheme::At772,
            _ => Scheme::At8,
        };
        let off = sha::digest_offset(&copy, scheme);
        let d = sha::p1_digest(&copy, off, &sha::role_p1_key(other(lib_role)));
        copy[off..off + 32].copy_from_slice(&d);
        let mut input = vec![3u8];
        input.extend_from_slice(&copy);
        let answer = h.process_bytes(&input).map_err(|e| format!("{:?}", e));
        let again = h.generate_outbound_p0_and_p1().map_err(|e| format!("{:?}", e));
        Ok((copy, answer, again, d))
    });
    let (copy, answer, again, d) = match r {
        Some(Ok(x)) => x,
        Some(Err(e)) => {
            out.violation("generate-p0-p1-fails", json!({"error": e}));
            return;
        }
        None => return,
    };
    match answer {
        Ok(HandshakeProcessResult::InProgress { response_bytes }) if response_bytes.len() >= PACKET => {
            let p2 = &response_bytes[response_bytes.len() - PACKET..];
            let want = sha::p2_signature(lib_role, &d, p2);
            if p2[PACKET - 32..] != want[..] {
                out.violation("p2-signature-invalid", json!({"note": if p2 == &copy[..] { "packet 2 is an echo" } else { "signature matches no known derivation" }, "context": ctx()}));
                return;
            }
            out.count("p2_signatures_valid_for_packet_1_derived_from_ours", 1);
        }
        other_result => {
            out.violation("packet-1-refused", json!({"result": format!("{:?}", other_result).chars().take(120).collect::<String>(), "context": ctx()}));
            return;
        }
    }
    // a refusal of the second generation is fine; a packet without a valid digest is not
    if let Ok(b) = again {
        if b.len() == 1 + PACKET && sha::find_digest(&b[1..], &sha::role_p1_key(lib_role)).is_empty() {
            out.violation("own-p1-carries-no-valid-digest", json!({"note": "packet 1 generated again after a packet 1 had been answered", "context": ctx()}));
            return;
        }
        out.count("own_p1_generated_again_after_answering", 1);
    }
}

fn round(rng: &mut Rng, sums: &[usize], out: &mut Out) {
    for &sum in sums {
        for role in [Role::Client, Role::Server] {
            own_p1(role, Some(sum), rng.next(), out);
        }
        // received packet 1: reference-built by `sender` (keyed for its role) in both schemes
        for sender in [Role::Client, Role::Server] {
            for scheme in [Scheme::At8, Scheme::At772] {
                let mut filler = rng.bytes(PACKET);
                sha::set_selector(&mut filler, scheme, sum);
                let mut p1 = sha::make_p1(sender, scheme, &filler);
                // the time and version fields are the sender's business: any values, including all
                // zeroes, with the digest recomputed over them
                if rng.chance(1, 3) {
                    let (t, v): ([u8; 4], [u8; 4]) = match rng.below(5) {
                        0 => ([0; 4], [0; 4]),
                        1 => ([0; 4], [0, 0, 0, 1]),
                        2 => ([0xFF; 4], [0xFF; 4]),
                        3 => ([0; 4], [128, 0, 7, 2]),
                        _ => (rng.u32().to_be_bytes(), rng.u32().to_be_bytes()),
                    };
                    p1[0..4].copy_from_slice(&t);
                    p1[4..8].copy_from_slice(&v);
                    let off = sha::digest_offset(&p1, scheme);
                    let d = sha::p1_digest(&p1, off, &sha::role_p1_key(sender));
                    p1[off..off + 32].copy_from_slice(&d);
                    out.count("received_p1_with_unusual_time_or_version_fields", 1);
                }
                // a near-miss: one bit wrong inside the digest, or outside it (then the digest no
                // longer matches): no valid digest => the answer must be the exact echo
                if rng.chance(1, 4) {
                    let off = sha::digest_offset(&p1, scheme);
                    let mut bad = p1.clone();
                    let at = if rng.coin() { off + rng.usize(0, 31) } else { rng.usize(8, PACKET - 1) };
                    // the selector bytes move the digest: keep them (another offset could hit a valid digest only with probability 2^-256 anyway)
                    bad[at] ^= 1 << rng.below(8);
                    if rng.chance(1, 3) {
                        // instead: the same bit wrong in two different 32-bit words of the digest
                        // (differences that cancel when folded together)
                        bad = p1.clone();
                        let (w1, w2) = (rng.usize(0, 7), rng.usize(0, 6));
                        let w2 = if w2 >= w1 { w2 + 1 } else { w2 };
                        let (byte, mask) = (rng.usize(0, 3), 1u8 << rng.below(8));
                        bad[off + 4 * w1 + byte] ^= mask;
                        bad[off + 4 * w2 + byte] ^= mask;
                    }
                    if sha::find_digest(&bad, &sha::role_p1_key(sender)).is_empty() {
                        out.count("received_p1_with_near_miss_digest", 1);
                        answer(other(sender), &bad, None, &format!("near-miss: valid {:?} packet with bit flipped at byte {} (digest at {})", scheme, at, off), rng.next(), rng.coin(), out);
                    }
                }
                let off = sha::digest_offset(&p1, scheme);
                let mut d = [0u8; 32];
                d.copy_from_slice(&p1[off..off + 32]);
                // which digest will a conformant receiver find?  (the other scheme could hit by
                // accident with probability 2^-256)
                out.shape(mix(mix(2, sender as u64), mix(scheme as u64, off as u64)));
                out.count(&format!("received_p1_from_{:?}_{:?}", sender, scheme), 1);
                answer(other(sender), &p1, Some(d), &format!("digest-bearing, keyed as {:?}, scheme {:?}, offset {}", sender, scheme, off), rng.next(), rng.coin(), out);
            }
        }
    }
}

impl Check for C11 {
    fn id(&self) -> &'static str {
        "C11"
    }
    fn plan(&self, tier: Tier) -> Plan {
        // case k < ROUNDS*16: enumerated sums (each case covers every 16th sum of one filling round)
        let rounds = tier.pick(32, 3200);
        let mut p = Plan::new(rounds * 16 + tier.pick(640, 64_000), tier.pick(30.0, 360.0));
        p.mandatory = 16 * 2.min(rounds);
        p
    }
    fn selftest(&self) -> Result<(), String> {
        sha::selftest()
    }
    fn run_case(&self, tier: Tier, k: u64, rng: &mut Rng, out: &mut Out) {
        let rounds = tier.pick(32u64, 3200);
        let _g = FillGuard;
        if k < rounds * 16 {
            let lane = (k % 16) as usize;
            let sums: Vec<usize> = (0..=1020usize).filter(|s| s % 16 == lane).collect();
            round(rng, &sums, out);
            out.count("enumerated_selector_sums", sums.len() as u64);
            out.sample(|| json!({"kind": "enumeration lane", "selector_sums": format!("{}..=1020 step 16", lane), "per_sum": "own P1 as client and server; received P1 keyed as client/server x scheme at8/at772"}));
            return;
        }
        // digest-less packet 1s and the library's own RNG (no hook)
        for i in 0..40 {
            // every eighth case: the first of each kind with the handshake object 2-3 ms old
            let aged = k % 8 == 0 && i < 4;
            AGE_MS.with(|a| a.set(if aged { 2 + (i as u64 % 2) } else { 0 }));
            if aged {
                out.count("handshakes_first_used_some_ms_after_creation", 1);
                own_p1(if i % 2 == 0 { Role::Client } else { Role::Server }, None, rng.next(), out);
                if i == 0 {
                    // and one selector sum of the enumeration (own packet 1 in both roles, received
                    // digest-bearing packet 1 in both schemes) with aged objects
                    let sum = rng.usize(0, 1020);
                    round(rng, &[sum], out);
                }
            }
            let mut p1 = rng.bytes(PACKET);
            let kind = match i % 4 {
                0 => {
                    for b in p1[0..8].iter_mut() {
                        *b = 0;
                    }
                    "digest-less, zero time and version (original handshake)"
                }
                1 => {
                    p1[4] = 9;
                    "digest-less, non-zero version"
                }
                2 => "digest-less, random",
                _ => {
                    // keyed for the wrong role: the receiver must not find a digest
                    let scheme = if rng.coin() { Scheme::At8 } else { Scheme::At772 };
                    let role = if rng.coin() { Role::Client } else { Role::Server };
                    let p = sha::make_p1(role, scheme, &p1);
                    p1 = p;
                    // sent to the same role => digest keyed for the wrong peer
                    let lib_role = role;
                    answer(lib_role, &p1, None, "digest keyed for the receiver's own role (not a valid peer digest)", rng.next(), rng.coin(), out);
                    continue;
                }
            };
            let lib_role = if rng.coin() { Role::Client } else { Role::Server };
            answer(lib_role, &p1, None, kind, rng.next(), rng.coin(), out);
        }
        for i in 0..10 {
            derived_and_regenerated(if i % 2 == 0 { Role::Client } else { Role::Server }, rng.next(), out);
        }
        for _ in 0..200 {
            let role = if rng.coin() { Role::Client } else { Role::Server };
            own_p1(role, None, 0, out);
            out.count("own_p1_with_library_rng", 1);
        }
    }
    fn rule(&self) -> String {
        "enumeration of every selector-byte sum 0..=1020 (all 728 digest offsets, both sums where a residue has two) x {own packet 1 as client, as server (via the deterministic fill hook); received packet 1 built by the reference, keyed as client -> library server and keyed as server -> library client, digest placed by scheme at-8 and by scheme at-772; a third of them with unusual time/version fields (all zero, all ones, random) and the digest recomputed; a quarter additionally as a near-miss with one bit flipped inside or outside the digest, which must be answered by an echo}, remaining bytes seeded-random, repeated for up to 32 (quick) / 3200 (thorough) fillings (the first two always); plus digest-less packet 1s (zero version, non-zero version, random, digest keyed for the wrong role) and packets generated with the library's own RNG; in every eighth of these cases the handshake objects are first used 2-3 ms after they were created (injected delay), for one selector sum of the enumeration and one packet of each digest-less kind. Per case ten handshakes receive a packet 1 derived from the library's own (a copy with the peer's valid digest stamped in the other scheme: signed answer expected) and generate packet 1 a second time afterwards (valid digest expected unless refused); a third of the near-misses have the same bit wrong in two 32-bit words of the digest. A third of the received packet 1s arrive together with the first 1-1535 bytes of a packet 2, a sixth split over two calls. Every digest, signature and echo is recomputed with the independent SHA-256/HMAC. distinct = (own/received, role, scheme, offset) combinations observed.".to_string()
    }
    fn assumptions(&self) -> Vec<String> {
        vec![
            "FP9 rules as in the clean-room description: digest = HMAC-SHA256(role constant, packet without the 32 digest bytes) at (sum of 4 selector bytes mod 728) + 12 | 776; packet 2 signature = HMAC(HMAC(role constant || 32-byte suffix, peer digest), packet 2 without its last 32 bytes)".to_string(),
            "a valid own digest at either probed position satisfies the statement".to_string(),
        ]
    }
    fn required_counters(&self, _tier: Tier) -> Vec<String> {
        vec![
            "enumerated_selector_sums".into(),
            "p2_signatures_valid".into(),
            "p2_echoes_exact".into(),
            "own_p1_with_library_rng".into(),
            "handshakes_first_used_some_ms_after_creation".into(),
            "received_p1_from_Client_At8".into(),
            "received_p1_from_Client_At772".into(),
            "received_p1_from_Server_At8".into(),
            "received_p1_from_Server_At772".into(),
            "received_p1_with_unusual_time_or_version_fields".into(),
            "received_p1_with_near_miss_digest".into(),
        ]
    }
    fn soft_counters(&self, _tier: Tier) -> Vec<String> {
        // depends on how the library calls the fill hook (today: once for bytes 8..1532 of packet 1)
        vec!["own_p1_offset_as_selected".into()]
    }
    fn exhaustive_part(&self, _tier: Tier) -> Option<String> {
        Some("all selector sums 0..=1020 (hence all 728 offsets) x both roles x both schemes, per filling".to_string())
    }
}
