//! C07 - the real serializer's bytes, judged by an independent strict decoder.

use super::chunkgen::{self, GenCfg, Op};
use crate::fw::{Check, Out, Plan, Tier};
use crate::refs::chunk::{self, Decoder, Msg};
use crate::rng::Rng;
use serde_json::json;

pub struct C07;

pub fn clause_of(err: &str) -> String {
    err.split(|c| c == ':' || c == ' ').next().unwrap_or("decode-error").to_string()
}

pub fn run_history(ops: &[Op], out: &mut Out) {
    out.eval(1);
    let witness = || chunkgen::ops_json(ops);
    let ser = chunkgen::serialize_history(ops, out, &witness);
    if !ser.all_ok {
        return;
    }
    let mut expected: Vec<Msg> = ops.iter().map(|o| o.expected()).collect();
    let mut d = Decoder::new(true);
    let mut got: Vec<Msg> = Vec::new();
    let mut announced = 128usize;
    for (i, p) in ser.packets.iter().enumerate() {
        let p = p.as_ref().unwrap();
        let before_msgs = got.len();
        let before_tr = d.mtrace.len();
        match d.feed(&p.bytes) {
            Ok(ms) => got.extend(ms),
            Err(e) => {
                out.violation(
                    &format!("strict-decoder-rejects-serializer-output:{}", clause_of(&e)),
                    json!({"clause": e, "op_index": i, "op": ops[i].to_json(), "packet": crate::rng::hex_short(&p.bytes, 96), "history": witness()}),
                );
                return;
            }
        }
        // every chunk of this packet must respect the size announced so far
        for t in &d.mtrace[before_tr..] {
            if t.chunk_size != announced {
                out.violation(
                    "chunk-size-used-before-announced",
                    json!({"op_index": i, "announced": announced, "decoder_size": t.chunk_size, "history": witness()}),
                );
                return;
            }
        }
        if let Op::SetChunk { size, .. } = &ops[i] {
            // the announcement itself: one type-1 message on message stream 0, chunk stream 2
            let ok = got.len() == before_msgs + 1
                && got[before_msgs].type_id == 1
                && got[before_msgs].msid == 0
                && d.mtrace.last().map(|t| t.csid == 2).unwrap_or(false)
                && got[before_msgs].data.len() == 4;
            if !ok {
                out.violation(
                    "chunk-size-change-not-announced-in-band",
                    json!({"op_index": i, "op": ops[i].to_json(), "decoded": got.get(before_msgs).map(|m| m.brief()), "history": witness()}),
                );
                return;
            }
            // the statement asks that *a* new size is announced before it is used and that no
            // chunk exceeds the announced size; a serializer that announces (and then uses) a
            // size other than the one requested - say 2^24-1 for anything larger, which the
            // specification calls equivalent - still produces a conformant stream
            if d.chunk_size != *size as usize {
                out.count("announced_chunk_size_differs_from_requested", 1);
                if let Some(e) = expected.get_mut(i) {
                    e.data = got[before_msgs].data.clone();
                }
            }
            announced = d.chunk_size;
            out.count("chunk_size_changes_announced", 1);
        }
    }
    if !d.idle() {
        out.violation(
            "serializer-output-leaves-partial-data",
            json!({"pending_bytes": d.pending_bytes(), "partial_messages": d.partial_messages(), "history": witness()}),
        );
        return;
    }
    if let Some(class) = chunk::first_difference_class(&got, &expected) {
        out.violation(
            &format!("conformant-peer-decodes-different-messages:{}", class),
            json!({"difference": chunk::first_difference(&got, &expected), "history": witness()}),
        );
        return;
    }
    for t in d.mtrace.iter() {
        if !(2..=65599).contains(&t.csid) {
            out.violation("illegal-csid", json!({"csid": t.csid, "history": witness()}));
        }
        if t.wrapped_delta {
            out.count("lenient_wrapped_negative_delta", 1);
        }
        if t.cont_fmt0 > 0 {
            out.count("lenient_fmt0_continuation_chunks", t.cont_fmt0 as u64);
        }
        if t.cont_ext > 0 {
            out.count("continuation_chunks_with_extended_timestamp", t.cont_ext as u64);
        }
        out.count(&format!("csid_{}", t.csid), 1);
    }
    chunk::matrix_counters(&d.matrix, "", out);
    out.count("histories_conformant", 1);
    out.count("messages_checked", expected.len() as u64);
}

impl Check for C07 {
    fn id(&self) -> &'static str {
        "C07"
    }
    fn plan(&self, tier: Tier) -> Plan {
        let mut p = Plan::new(tier.pick(360_000, 36_000_000), tier.pick(30.0, 420.0));
        p.mandatory = 1;
        p.cpu_budget_s = 120.0;
        p
    }
    fn selftest(&self) -> Result<(), String> {
        chunk::selftest()
    }
    fn run_case(&self, tier: Tier, k: u64, rng: &mut Rng, out: &mut Out) {
        if k == 0 {
            let mk = |type_id: u8, msid: u32, ts: u32, len: usize, force: bool| Op::Msg {
                m: Msg { type_id, msid, ts, data: (0..len).map(|i| (i * 3) as u8).collect() },
                force,
                drop: false,
            };
            let fixed: Vec<Vec<Op>> = vec![
                vec![mk(8, 1, 0, 0, false)],
                vec![mk(9, 1, 0xFFFFFE, 1, false), mk(9, 1, 0xFFFFFF, 1, false), mk(9, 1, 0x1000000, 1, false), mk(9, 1, 0x2000000, 1, false), mk(9, 1, 0x3000000, 1, false)],
                vec![mk(9, 1, 0xFFFFFF, 300, false), mk(9, 1, 0x1FFFFFE, 300, false), mk(9, 1, 0x2FFFFFD, 300, false)],
                vec![mk(9, 1, 0x1000000, 300, true), mk(9, 1, 0x1000000, 300, true)],
                vec![Op::SetChunk { size: 1, ts: 0 }, mk(20, 0, 1, 5, false), Op::SetChunk { size: 0x7FFF_FFFF, ts: 9 }, mk(20, 0, 2, 70000, false)],
                vec![mk(8, 1, 100, 128, false), mk(8, 1, 200, 128, false), mk(8, 1, 300, 128, false), mk(8, 1, 400, 129, false)],
                vec![mk(8, 1, 1000, 4, false), mk(8, 1, 500, 4, false), mk(8, 1, 0, 4, false)],
                vec![mk(8, 7, 0xFFFF_FFFF, 4, false), mk(8, 7, 0, 4, false), mk(8, 7, 1, 4, false)],
            ];
            for ops in fixed.iter() {
                run_history(ops, out);
            }
            out.count("fixed_boundary_histories", fixed.len() as u64);
            // large chunk sizes x large messages: one chunk (or two) around 2^20, 2^21, 2^23, 2^24
            for (size, len) in [(3_000_000u32, 2_000_000usize), (1_677_216, 1_677_217), (0x20_0000, 0x20_0001), (0x80_0000, 0x80_0001), (0xFF_FFFF, 16_777_215), (0x7FFF_FFFF, 9_000_000), (70_000, 16_777_215)] {
                let ops = vec![Op::SetChunk { size, ts: 0 }, mk(9, 1, 5, len, false), mk(8, 1, 6, 3, false)];
                run_history(&ops, out);
                out.count("large_chunk_large_payload_histories", 1);
            }
            return;
        }
        let big = tier == Tier::Thorough && k % 5000 == 17;
        let cfg = GenCfg {
            max_ops: if big { 4 } else { 40 },
            allow_user_type1: false,
            drop_pct: 15,
            max_payload: if big { 16_777_215 } else if k % 50 == 0 { 1 << 20 } else { 70_000 },
            max_chunks: if big { 1 << 24 } else { 3000 },
            set_chunk_pct: 12,
        };
        let ops = chunkgen::gen_history(rng, &cfg);
        run_history(&ops, out);
        // shape: reuse the C01 observer (lenient decode of the same bytes)
        out.sample(|| json!({"history": chunkgen::ops_json(&ops[..ops.len().min(6)]), "ops_total": ops.len()}));
        let mut h = 0u64;
        let mut nontrivial = false;
        for o in ops.iter() {
            match o {
                Op::Msg { m, force, drop } => {
                    h = crate::rng::mix(h, (m.type_id as u64) << 8 | (*force as u64) << 1 | *drop as u64);
                    h = crate::rng::mix(h, (m.ts >= 0xFFFFFF) as u64 * 4 + (m.data.len() > 128) as u64 * 2 + (m.data.is_empty()) as u64);
                    if m.ts >= 0xFFFFFF || m.data.len() > 128 {
                        nontrivial = true;
                    }
                }
                Op::SetChunk { size, .. } => {
                    h = crate::rng::mix(h, 0x5e7 ^ (*size as u64).min(70000));
                    nontrivial = true;
                }
            }
        }
        if nontrivial || ops.len() > 2 {
            out.shape(h);
        }
    }
    fn rule(&self) -> String {
        "histories as in C01 (user messages never carry type id 1, because a real peer would obey them; chunk-size changes come from set_max_chunk_size only). The independent strict decoder consumes the library's packets in order and enforces per chunk: csid in 2..65599 and minimally encoded; formats 1-3 only after a predecessor on that csid; 24-bit field saturated with the extended field present exactly then and its value >= 0xFFFFFF; type-3 extended values equal to the preceding header's; continuation chunks of format 3 (format 0 restating the same header tolerated); every chunk sized by the chunk size announced so far; each set_max_chunk_size announced as a type-1 message on message stream 0 / chunk stream 2 before first use; nothing left over; decoded messages equal the sent ones (so every inherited field was inheritable). Distinct = hash of the operation sequence abstracted to (type, flags, extended?, multi-chunk?, empty?, size change).".to_string()
    }
    fn assumptions(&self) -> Vec<String> {
        vec![
            "format-0 headers on continuation chunks (force_uncompressed) and modulo-2^32 deltas for falling timestamps are accepted and counted (DESIGN section 5)".to_string(),
            "whether a packet holds whole chunks of one message is not asserted here (C08 observes its consequence)".to_string(),
        ]
    }
    fn required_counters(&self, _tier: Tier) -> Vec<String> {
        vec!["histories_conformant".into(), "fixed_boundary_histories".into(), "chunk_size_changes_announced".into(), "messages_checked".into()]
    }
    fn soft_counters(&self, _tier: Tier) -> Vec<String> {
        // which formats and chunk streams the serializer chooses is its policy
        let mut v: Vec<String> = Vec::new();
        for k in ["fmt0_noext_first", "fmt1_noext_first", "fmt2_noext_first", "fmt3_noext_first", "fmt3_noext_continuation", "fmt0_ext_first", "fmt1_ext_first", "fmt2_ext_first", "fmt3_ext_first", "fmt3_ext_continuation", "fmt0_noext_continuation"] {
            v.push(k.to_string());
        }
        v
    }
}
