//! C08 - dropping any subset of droppable packets leaves the stream decodable.
//! All 2^k subsets for small k, judged by the real deserializer and by the independent decoder.

use super::c07::clause_of;
use super::chunkgen::{self, GenCfg, Op};
use crate::adapt::lib_feed;
use crate::fw::{lib_call, Check, Out, Plan, Tier};
use crate::refs::chunk::{self, Decoder, Msg};
use crate::rng::{mix, Rng};
use rml_rtmp::chunk_io::ChunkDeserializer;
use serde_json::json;

pub struct C08;

/// Subsets (bitmaps over the k droppable packets) to try.
pub fn subsets(k: usize, exhaustive_up_to: usize, random_extra: usize, rng: &mut Rng) -> (Vec<u64>, bool) {
    if k == 0 {
        return (vec![0], true);
    }
    if k <= exhaustive_up_to {
        return ((0..(1u64 << k)).collect(), true);
    }
    let k = k.min(63);
    let all = (1u64 << k) - 1;
    let mut v = vec![0u64, all];
    for i in 0..k {
        v.push(1 << i);
        v.push(all & !(1 << i));
    }
    v.push(0x5555_5555_5555_5555 & all);
    v.push(0xAAAA_AAAA_AAAA_AAAA & all);
    for _ in 0..random_extra {
        v.push(rng.next() & all);
    }
    (v, false)
}

pub struct Surviving {
    pub bytes: Vec<u8>,
    pub op_index: Vec<usize>,
}

pub fn surviving(packets: &[Vec<u8>], droppable_idx: &[usize], subset: u64) -> Surviving {
    let mut bytes = Vec::new();
    let mut op_index = Vec::new();
    for (i, p) in packets.iter().enumerate() {
        if let Some(j) = droppable_idx.iter().position(|x| *x == i) {
            if j < 64 && subset & (1 << j) != 0 {
                continue;
            }
        }
        bytes.extend_from_slice(p);
        op_index.push(i);
    }
    Surviving { bytes, op_index }
}

pub fn run_history(ops: &[Op], tier: Tier, rng: &mut Rng, out: &mut Out) {
    let witness = || chunkgen::ops_json(ops);
    let ser = chunkgen::serialize_history(ops, out, &witness);
    if !ser.all_ok {
        return;
    }
    let packets: Vec<Vec<u8>> = ser.packets.iter().map(|p| p.as_ref().unwrap().bytes.clone()).collect();
    let mut droppable_idx: Vec<usize> = Vec::new();
    for (i, p) in ser.packets.iter().enumerate() {
        let p = p.as_ref().unwrap();
        match &ops[i] {
            Op::SetChunk { .. } => {
                if p.can_be_dropped {
                    out.violation("chunk-size-announcement-marked-droppable", json!({"op_index": i, "history": witness()}));
                }
            }
            Op::Msg { drop, .. } => {
                if p.can_be_dropped != *drop {
                    // the statement is about the packets that *are* marked; which ones the
                    // serializer marks is observed, not judged (C18 judges it for the sessions)
                    out.count("packet_droppable_flag_differs_from_request", 1);
                }
            }
        }
        if p.can_be_dropped {
            droppable_idx.push(i);
        }
    }
    let k = droppable_idx.len();
    let (subs, exhaustive) = subsets(k, tier.pick(6, 10), tier.pick(24, 200), rng);
    out.count(if exhaustive { "histories_all_subsets" } else { "histories_sampled_subsets" }, 1);
    out.maxv("max_droppable_packets_in_history", k as u64);
    let expected_all: Vec<Msg> = ops.iter().map(|o| o.expected()).collect();
    let total_bytes: usize = packets.iter().map(|p| p.len()).sum();
    // keep very large histories affordable
    let subs: Vec<u64> = if total_bytes > 400_000 { subs.into_iter().take(8).collect() } else { subs };
    for &sub in subs.iter() {
        out.eval(1);
        let s = surviving(&packets, &droppable_idx, sub);
        let mut expected: Vec<Msg> = s.op_index.iter().map(|i| expected_all[*i].clone()).collect();
        let scs: Vec<Option<u32>> = s.op_index.iter().map(|i| if let Op::SetChunk { size, .. } = &ops[*i] { Some(*size) } else { None }).collect();
        // (1) the library's own deserializer
        let r = lib_call(out, "ChunkDeserializer::get_next_message", || json!({"dropped_subset_bitmap": sub, "history": witness()}), || {
            let mut d = ChunkDeserializer::new();
            let mut got = Vec::new();
            let mut idx = 0usize;
            let r = lib_feed(&mut d, &s.bytes, &mut got, |d, m| {
                if let Some(Some(_)) = scs.get(idx) {
                    if let Some(size) = chunkgen::announced_size(m) {
                        let _ = d.set_max_chunk_size(size);
                    }
                }
                idx += 1;
            });
            (r, got)
        });
        let (r, got) = match r {
            Some(x) => x,
            None => return,
        };
        let dropped: Vec<usize> = droppable_idx.iter().enumerate().filter(|(j, _)| *j < 64 && sub & (1 << j) != 0).map(|(_, i)| *i).collect();
        if let Err(e) = r {
            out.violation(
                "library-deserializer-fails-after-drop",
                json!({"error": e, "dropped_op_indices": dropped, "history": witness()}),
            );
            return;
        }
        let is_ann: Vec<bool> = scs.iter().map(|x| x.is_some()).collect();
        chunkgen::accept_announced_sizes(&mut expected, &got, &is_ann, out);
        if let Some(class) = chunk::first_difference_class(&got, &expected) {
            out.violation(
                &format!("library-deserializer-differs-after-drop:{}", class),
                json!({"difference": chunk::first_difference(&got, &expected), "dropped_op_indices": dropped, "history": witness()}),
            );
            return;
        }
        // (2) a conformant peer
        let mut d = Decoder::new(true);
        match d.feed(&s.bytes) {
            Err(e) => {
                out.violation(
                    &format!("conformant-peer-fails-after-drop:{}", clause_of(&e)),
                    json!({"clause": e, "dropped_op_indices": dropped, "history": witness()}),
                );
                return;
            }
            Ok(got) => {
                if let Some(class) = chunk::first_difference_class(&got, &expected) {
                    out.violation(
                        &format!("conformant-peer-differs-after-drop:{}", class),
                        json!({"difference": chunk::first_difference(&got, &expected), "dropped_op_indices": dropped, "history": witness()}),
                    );
                    return;
                }
                if !d.idle() {
                    out.violation("conformant-peer-left-with-partial-data-after-drop", json!({"dropped_op_indices": dropped, "history": witness()}));
                    return;
                }
            }
        }
        out.count("subset_executions_ok", 1);
        if sub != 0 {
            out.count("subset_executions_with_drops", 1);
        }
        out.shape(mix(mix(k as u64, sub.count_ones() as u64), mix(ops.len() as u64, sub & 0xFFFF)));
    }
    out.count("histories_ok", 1);
}

impl Check for C08 {
    fn id(&self) -> &'static str {
        "C08"
    }
    fn plan(&self, tier: Tier) -> Plan {
        let mut p = Plan::new(tier.pick(160_000, 16_000_000), tier.pick(30.0, 420.0));
        p.mandatory = 1;
        p.cpu_budget_s = 120.0;
        p
    }
    fn selftest(&self) -> Result<(), String> {
        chunk::selftest()
    }
    fn run_case(&self, tier: Tier, k: u64, rng: &mut Rng, out: &mut Out) {
        if k == 0 {
            let mk = |type_id: u8, msid: u32, ts: u32, len: usize, drop: bool| Op::Msg {
                m: Msg { type_id, msid, ts, data: (0..len).map(|i| (i * 7) as u8).collect() },
                force: false,
                drop,
            };
            let fixed: Vec<Vec<Op>> = vec![
                // droppable then compressed candidates on the same csid
                vec![mk(9, 1, 0, 10, false), mk(9, 1, 40, 10, true), mk(9, 1, 80, 10, false), mk(9, 1, 120, 10, false)],
                // droppable multi-chunk message followed by an identical-shaped one
                vec![mk(9, 1, 0, 300, true), mk(9, 1, 40, 300, false), mk(9, 1, 80, 300, true), mk(9, 1, 120, 300, false)],
                // droppable run, other csid in between, chunk-size change in between
                vec![mk(8, 1, 0, 5, true), mk(9, 1, 0, 5, true), Op::SetChunk { size: 3, ts: 0 }, mk(8, 1, 23, 5, false), mk(9, 1, 33, 5, false), mk(8, 1, 46, 5, true), mk(8, 1, 69, 5, false)],
                // zero-length droppable messages and extended timestamps
                vec![mk(8, 1, 0x1000000, 0, true), mk(8, 1, 0x2000000, 0, false), mk(8, 1, 0x3000000, 0, true), mk(8, 1, 0x4000000, 0, false)],
                // first message on a csid droppable
                vec![mk(18, 1, 5, 9, true), mk(18, 1, 6, 9, false), mk(18, 1, 7, 9, false)],
            ];
            for ops in fixed.iter() {
                run_history(ops, tier, rng, out);
            }
            out.count("fixed_boundary_histories", fixed.len() as u64);
            return;
        }
        let cfg = GenCfg {
            max_ops: 24,
            allow_user_type1: false,
            drop_pct: *rng.pick(&[30u64, 50, 70]),
            max_payload: if k % 40 == 0 { 200_000 } else { 3000 },
            max_chunks: 400,
            set_chunk_pct: 8,
        };
        let ops = chunkgen::gen_history(rng, &cfg);
        run_history(&ops, tier, rng, out);
        out.sample(|| json!({"history": chunkgen::ops_json(&ops[..ops.len().min(6)]), "ops_total": ops.len(),
            "droppable_ops": ops.iter().filter(|o| matches!(o, Op::Msg{drop: true, ..})).count()}));
    }
    fn rule(&self) -> String {
        "histories as in C07 with droppable density 15-90% on all message kinds incl. multi-chunk and zero-length ones, droppable runs followed by compressible candidates on the same and other chunk streams, chunk-size changes in between. For k droppable packets: all 2^k subsets when k <= 10 (quick: 6), otherwise none/all/each singleton/each co-singleton/alternating/200 (quick 24) random. Each surviving stream is decoded by the real ChunkDeserializer (chunk sizes by position) and by the independent strict decoder; both must return exactly the non-omitted messages. Distinct = (k, #dropped, history length, low subset bits).".to_string()
    }
    fn assumptions(&self) -> Vec<String> {
        vec!["packets are delivered whole and in order; only packets returned with can_be_dropped = true are omitted".to_string()]
    }
    fn required_counters(&self, _tier: Tier) -> Vec<String> {
        vec![
            "histories_ok".into(),
            "histories_all_subsets".into(),
            "histories_sampled_subsets".into(),
            "subset_executions_with_drops".into(),
            "fixed_boundary_histories".into(),
        ]
    }
    fn exhaustive_part(&self, tier: Tier) -> Option<String> {
        Some(format!("all 2^k drop subsets of every generated history with k <= {} droppable packets", tier.pick(6, 10)))
    }
}
