//! C13 - RTMP message bodies follow the specification and convert back losslessly.

use crate::fw::{lib_call, Check, Out, Plan, Tier};
use crate::refs::amf::{self, V};
use crate::refs::msg::{self, RMsg, KNOWN_TYPE_IDS, UC_EVENTS};
use crate::rng::{hex_short, mix, Rng};
use bytes::Bytes;
use rml_rtmp::messages::{MessagePayload, RtmpMessage};
use rml_rtmp::time::RtmpTimestamp;
use serde_json::json;

pub struct C13;

const BATCH: usize = 200;

fn u32_class(x: u32) -> u64 {
    match x {
        0 => 0,
        1..=0xFFFF => 1,
        0x10000..=0x7FFF_FFFE => 2,
        0x7FFF_FFFF => 3,
        0x8000_0000 => 4,
        0xFFFF_FFFF => 6,
        _ => 5,
    }
}

fn shape(m: &RMsg) -> u64 {
    match m {
        RMsg::SetChunkSize(x) => mix(1, u32_class(*x)),
        RMsg::Abort(x) => mix(2, u32_class(*x)),
        RMsg::Ack(x) => mix(3, u32_class(*x)),
        RMsg::UserControl(c, f) => mix(mix(4, *c as u64), u32_class(f[0])),
        RMsg::WinAck(x) => mix(5, u32_class(*x)),
        RMsg::SetPeerBw(x, l) => mix(mix(6, *l as u64), u32_class(*x)),
        RMsg::Audio(d) => mix(8, (d.len() as u64).min(3)),
        RMsg::Video(d) => mix(9, (d.len() as u64).min(3)),
        RMsg::Data(v) => mix(18, amf::shape_hash(v)),
        RMsg::Command { name, txid, obj, args } => mix(mix(20, name.len().min(9) as u64), mix(amf::shape_hash(&[obj.clone()]), mix(amf::shape_hash(args), (f64::from_bits(*txid).is_nan()) as u64))),
        RMsg::Unknown(t, d) => mix(mix(100, *t as u64), (d.len() as u64).min(3)),
    }
}

fn is_amf(type_id: u8) -> bool {
    matches!(type_id, 15 | 17 | 18 | 20)
}

/// The library has two public ways from a message to its payload (`MessagePayload::from_rtmp_message`
/// and the convenience `RtmpMessage::into_message_payload`): every conversion goes through both,
/// and they must agree - both refuse, or both give the same payload.  Returns the first one's result.
fn to_payload(lib_msg: RtmpMessage, ts: u32, msid: u32, ctx: &dyn Fn() -> serde_json::Value, out: &mut Out) -> Option<Result<MessagePayload, String>> {
    let twin = lib_msg.clone();
    let a = lib_call(out, "MessagePayload::from_rtmp_message", ctx, || MessagePayload::from_rtmp_message(lib_msg, RtmpTimestamp::new(ts), msid))?;
    let b = lib_call(out, "RtmpMessage::into_message_payload", ctx, || twin.into_message_payload(RtmpTimestamp::new(ts), msid))?;
    let same = match (&a, &b) {
        (Ok(x), Ok(y)) => x == y,
        (Err(_), Err(_)) => true,
        _ => false,
    };
    if same {
        out.count("conversions_through_both_entry_points_agree", 1);
    } else {
        let show = |r: &Result<MessagePayload, rml_rtmp::messages::MessageSerializationError>| match r {
            Ok(p) => format!("Ok(type {}, msid {}, ts {}, body {})", p.type_id, p.message_stream_id, p.timestamp.value, hex_short(&p.data, 40)),
            Err(e) => format!("Err({:?})", e),
        };
        out.violation(
            "message-to-payload-entry-points-disagree",
            json!({"message": ctx(), "from_rtmp_message": show(&a), "into_message_payload": show(&b)}),
        );
    }
    Some(a.map_err(|e| format!("{:?}", e)))
}

/// message -> payload -> message, against the reference layout
fn encode_direction(m: &RMsg, rng: &mut Rng, out: &mut Out) {
    out.eval(1);
    let lib_msg = match m.to_lib() {
        Some(l) => l,
        None => return,
    };
    let ts = rng.u32_boundary();
    let msid = rng.u32_boundary();
    let r = match to_payload(lib_msg, ts, msid, &|| m.to_json(), out) {
        Some(r) => r,
        None => return,
    };
    let expressible = m.amf_expressible() && m.amf_depth() <= 32;
    let payload = match r {
        Ok(p) => p,
        Err(_) if !expressible => {
            out.count("message_amf0_cannot_express_refused", 1);
            return;
        }
        Err(e) => {
            out.violation(
                "well-formed-message-refused",
                json!({"message": m.to_json(), "error": format!("{:?}", e)}),
            );
            return;
        }
    };
    if payload.type_id != m.type_id() {
        out.violation(
            "wrong-type-id",
            json!({"message": m.to_json(), "type_id": payload.type_id, "specification": m.type_id()}),
        );
        return;
    }
    if payload.timestamp.value != ts || payload.message_stream_id != msid {
        out.violation("payload-timestamp-or-stream-id-altered", json!({"message": m.to_json()}));
        return;
    }
    let want_body = if expressible { m.body() } else { Vec::new() };
    if !expressible {
        // accepted although plain AMF0 strings cannot hold it (a library may use long strings):
        // the reference layouts do not apply, but it must convert back to an equal message
        out.count("message_amf0_cannot_express_accepted", 1);
    } else if is_amf(m.type_id()) {
        match msg::decode(m.type_id(), &payload.data) {
            Ok(r) if r.canon() == m.canon() && payload.data.len() == want_body.len() => {}
            other => {
                out.violation(
                    "amf-body-differs-from-specification",
                    json!({"message": m.to_json(), "body": hex_short(&payload.data, 160), "reference_body": hex_short(&want_body, 160),
                           "reference_reading": format!("{:?}", other.map(|r| r.to_json()))}),
                );
                return;
            }
        }
    } else if payload.data[..] != want_body[..] {
        out.violation(
            &format!("body-layout-differs-from-specification:type{}", m.type_id()),
            json!({"message": m.to_json(), "body": hex_short(&payload.data, 64), "reference_body": hex_short(&want_body, 64)}),
        );
        return;
    }
    // and back
    let back = match lib_call(out, "MessagePayload::to_rtmp_message", || m.to_json(), || payload.to_rtmp_message()) {
        Some(b) => b,
        None => return,
    };
    match back {
        Err(e) => out.violation(
            "own-payload-does-not-convert-back",
            json!({"message": m.to_json(), "error": format!("{:?}", e)}),
        ),
        Ok(b) => {
            let got = RMsg::from_lib(&b).canon();
            if got != m.canon() {
                out.violation(
                    "payload-converts-back-to-different-message",
                    json!({"message": m.to_json(), "back": got.to_json()}),
                );
            } else {
                out.count("round_trips_exact", 1);
                out.count(&format!("variant_type{}", m.type_id()), 1);
                if let RMsg::UserControl(c, _) = m {
                    out.count(&format!("user_control_event_{}", c), 1);
                }
                if let RMsg::SetPeerBw(_, l) = m {
                    out.count(&format!("limit_type_{}", l), 1);
                }
            }
        }
    }
}

/// payload (any type id, any body) -> message, against the reference decoder
fn decode_direction(type_id: u8, body: &[u8], kind: &str, out: &mut Out) {
    out.eval(1);
    let payload = MessagePayload {
        timestamp: RtmpTimestamp::new(7),
        type_id,
        message_stream_id: 3,
        data: Bytes::from(body.to_vec()),
    };
    let ctx = || json!({"type_id": type_id, "body": hex_short(body, 160), "body_kind": kind});
    let got = match lib_call(out, "MessagePayload::to_rtmp_message", ctx, || payload.to_rtmp_message()) {
        Some(g) => g,
        None => return,
    };
    let reference = msg::decode(type_id, body);
    out.count(&format!("decode_{}", kind), 1);
    match (&got, &reference) {
        (Ok(g), Ok(r)) => {
            let g = RMsg::from_lib(g).canon();
            if g != r.canon() {
                let sig = if !KNOWN_TYPE_IDS.contains(&type_id) {
                    "unknown-type-id-not-passed-through".to_string()
                } else {
                    format!("decodes-differently-from-specification:type{}", type_id)
                };
                out.violation(&sig, json!({"type_id": type_id, "body": hex_short(body, 160), "library": g.to_json(), "reference": r.to_json()}));
            } else {
                out.count("decode_agrees", 1);
                if type_id == 15 || type_id == 17 {
                    out.count("amf3_flagged_decoded_as_amf0", 1);
                }
                if !KNOWN_TYPE_IDS.contains(&type_id) {
                    out.count("unknown_passthrough", 1);
                }
            }
        }
        (Err(e), Ok(r)) => out.violation(
            &format!("rejects-body-the-specification-defines:type{}", type_id),
            json!({"type_id": type_id, "body": hex_short(body, 160), "error": format!("{:?}", e), "reference": r.to_json()}),
        ),
        (Ok(g), Err(e)) => {
            if type_id == 1 && e.contains("top bit") {
                // the one malformed control body the statement names explicitly
                out.violation(
                    "accepts-malformed-body:type1",
                    json!({"type_id": type_id, "body": hex_short(body, 64), "library": RMsg::from_lib(g).to_json(), "reference_error": e}),
                );
            } else if !is_amf(type_id) {
                // other short / unknown-code control bodies: the statement does not require a
                // refusal (that they cannot panic is C03); counted
                out.count("lenient_control_body_accepted", 1);
            } else if (type_id == 20 || type_id == 17) && e.contains("fewer than three") {
                out.count("lenient_short_command_accepted", 1);
            } else {
                // AMF bodies the reference rejects (truncated, trailing garbage): the library
                // may return a prefix by design (C12); only the monitors for panics apply here
                out.count("decode_amf_lenient", 1);
            }
        }
        (Err(_), Err(_)) => out.count("decode_both_reject", 1),
    }
}

fn body_for_type(type_id: u8, rng: &mut Rng) -> Vec<u8> {
    // a reference-encoded body of a generated message of that type
    loop {
        let m = match type_id {
            1 => RMsg::SetChunkSize(rng.u32_boundary() & 0x7FFF_FFFF),
            2 => RMsg::Abort(rng.u32_boundary()),
            3 => RMsg::Ack(rng.u32_boundary()),
            5 => RMsg::WinAck(rng.u32_boundary()),
            6 => RMsg::SetPeerBw(rng.u32_boundary(), rng.below(3) as u8),
            4 => {
                let (c, n) = *rng.pick(&UC_EVENTS);
                RMsg::UserControl(c, (0..n).map(|_| rng.u32_boundary()).collect())
            }
            15 | 18 | 17 | 20 => {
                let m = msg::gen_msg(rng, 64);
                let want = if type_id == 15 || type_id == 18 { 18 } else { 20 };
                if m.type_id() != want {
                    continue;
                }
                m
            }
            _ => RMsg::Unknown(type_id, msg::gen_payload(rng, 300)),
        };
        return m.body();
    }
}

impl Check for C13 {
    fn id(&self) -> &'static str {
        "C13"
    }
    fn plan(&self, tier: Tier) -> Plan {
        let mut p = Plan::new(tier.pick(60_000, 6_000_000), tier.pick(25.0, 360.0));
        p.mandatory = 3;
        p
    }
    fn selftest(&self) -> Result<(), String> {
        amf::selftest()?;
        msg::selftest()
    }
    fn run_case(&self, _tier: Tier, k: u64, rng: &mut Rng, out: &mut Out) {
        if k == 0 {
            // enumerated: all 256 type ids x body kinds
            for t in 0u16..=255 {
                let t = t as u8;
                for rep in 0..4 {
                    let body = body_for_type(t, rng);
                    decode_direction(t, &body, "reference_body", out);
                    if t == 17 {
                        let mut b = vec![0u8];
                        b.extend_from_slice(&body);
                        decode_direction(t, &b, "amf3_command_with_leading_zero", out);
                    }
                    for cut in [0usize, 1, 2, 3, 4, 5, 6, 9].iter() {
                        if *cut < body.len() {
                            decode_direction(t, &body[..*cut], "truncated_body", out);
                        }
                    }
                    if body.len() > 1 {
                        let c = rng.usize(0, body.len() - 1);
                        decode_direction(t, &body[..c], "truncated_body", out);
                    }
                    let mut ext = body.clone();
                    let extra = rng.usize(1, 9);
                    ext.extend_from_slice(&rng.bytes(extra));
                    decode_direction(t, &ext, "body_with_trailing_bytes", out);
                    let n = [0usize, 1, 4, 5, 6, 10, 40][rep % 7];
                    decode_direction(t, &rng.bytes(n), "random_body", out);
                }
            }
            out.count("type_ids_enumerated", 256);
            return;
        }
        if k == 1 {
            // enumerated: every event code 0..=40 and every limit code, chunk sizes at the top-bit edge
            for code in 0u16..=40 {
                for n in 0..=3usize {
                    let mut body = code.to_be_bytes().to_vec();
                    for _ in 0..n {
                        body.extend_from_slice(&rng.u32_boundary().to_be_bytes());
                    }
                    decode_direction(4, &body, "user_control_code_enumeration", out);
                }
            }
            for limit in 0u16..=255 {
                let mut body = rng.u32_boundary().to_be_bytes().to_vec();
                body.push(limit as u8);
                decode_direction(6, &body, "limit_code_enumeration", out);
            }
            for size in [0u32, 1, 0x7FFF_FFFE, 0x7FFF_FFFF, 0x8000_0000, 0x8000_0001, 0xFFFF_FFFF, 0xC000_0000] {
                decode_direction(1, &size.to_be_bytes(), "chunk_size_edge", out);
                out.eval(1);
                let r = to_payload(RtmpMessage::SetChunkSize { size }, 0, 0, &|| json!({"SetChunkSize": size}), out);
                match r {
                    Some(Ok(_)) if size > 0x7FFF_FFFF => out.violation("chunk-size-above-2^31-1-accepted-when-encoding", json!({"size": size})),
                    Some(Err(e)) if size <= 0x7FFF_FFFF => out.violation("well-formed-message-refused", json!({"SetChunkSize": size, "error": format!("{:?}", e)})),
                    Some(Err(_)) => out.count("chunk_size_top_bit_refused_encoding", 1),
                    _ => {}
                }
            }
            for (code, n) in UC_EVENTS.iter() {
                let m = RMsg::UserControl(*code, (0..*n).map(|_| rng.u32_boundary()).collect());
                encode_direction(&m, rng, out);
            }
            for l in 0..3u8 {
                encode_direction(&RMsg::SetPeerBw(rng.u32_boundary(), l), rng, out);
            }
            return;
        }
        if k == 2 {
            // nesting around any depth limit the AMF0 codec may have: whatever the encoder accepts
            // must convert back, whatever the leaf and whatever the containers
            let leaves: Vec<V> = vec![V::Null, V::Bool(true), V::Num(1.5f64.to_bits()), V::Str("leaf".into()), V::Arr(vec![]), V::Obj(vec![]), V::Arr(vec![V::Num(1.5f64.to_bits())]), V::Arr(vec![V::Num(0), V::Num(1)]), V::Arr(vec![V::Null]), V::Obj(vec![("n".into(), V::Num(7))])];
            let mut n = 0u64;
            for depth in [1usize, 8, 31, 32, 33, 62, 63, 64, 65, 126, 127, 128, 129, 130, 131, 200, 255, 256, 257] {
                for leaf in leaves.iter() {
                    for style in 0..3 {
                        let mut v = leaf.clone();
                        for i in 0..depth {
                            v = match (style, i % 2) {
                                (0, _) | (2, 0) => V::Arr(vec![v]),
                                _ => V::Obj(vec![("p".to_string(), v)]),
                            };
                        }
                        let m = if style == 1 { RMsg::Command { name: "call".into(), txid: 1f64.to_bits(), obj: V::Null, args: vec![v] } } else { RMsg::Data(vec![amf::s("onData"), v]) };
                        encode_direction(&m, rng, out);
                        n += 1;
                    }
                }
            }
            out.count("deeply_nested_messages", n);
            return;
        }
        for i in 0..BATCH {
            let m = if i == 7 && k % 4 == 0 { msg::gen_msg_with_long_string(rng) } else { msg::gen_msg(rng, if i % 50 == 0 { 65536 } else { 400 }) };
            encode_direction(&m, rng, out);
            out.shape(shape(&m));
            if i % 4 == 0 {
                let t = if rng.coin() { *rng.pick(&KNOWN_TYPE_IDS) } else { rng.u8() };
                let body = body_for_type(t, rng);
                decode_direction(t, &body, "reference_body", out);
                if body.len() > 0 {
                    let c = rng.usize(0, body.len() - 1);
                    decode_direction(t, &body[..c], "truncated_body", out);
                    // single byte mutation
                    let mut mb = body.clone();
                    let at = rng.usize(0, mb.len() - 1);
                    mb[at] ^= 1 << rng.below(8);
                    decode_direction(t, &mb, "mutated_body", out);
                }
            }
            if i == 3 {
                out.sample(|| json!({"message": m.to_json(), "reference_type_id": m.type_id(), "reference_body": hex_short(&m.body(), 96)}));
            }
        }
    }
    fn rule(&self) -> String {
        "messages of every RtmpMessage variant with boundary-biased u32 fields, all 9 user-control events (exactly the fields each defines), 3 limit types, AMF0 command/data with generated argument lists (transaction ids incl. NaN and -0 by bit pattern), audio/video 0-64 KiB, Unknown for every other id, and commands / data messages carrying one string or property name of more than 65,535 bytes (ASCII or multi-byte; these may be refused, or accepted if they convert back to an equal message): message->payload compared with the reference type id and body, then payload->message compared with the original. Decode direction: all 256 type ids x {reference body, every short truncation, trailing bytes, random body, bit-flipped body}, user-control codes 0..40 x 0..3 fields, limit codes 0..255, chunk sizes around 2^31. Distinct = (variant, event/limit code, field boundary class, AMF shape). Every message-to-payload conversion goes through both public entry points (MessagePayload::from_rtmp_message and RtmpMessage::into_message_payload), which must agree.".to_string()
    }
    fn assumptions(&self) -> Vec<String> {
        vec![
            "a well-formed UserControl message carries exactly the fields its event defines".to_string(),
            "bodies the strict reference rejects (truncated, trailing bytes, unknown codes) may be decoded leniently by the library - counted; the one refusal the statement names, a chunk size with the top bit set, is required in both directions".to_string(),
        ]
    }
    fn required_counters(&self, _tier: Tier) -> Vec<String> {
        let mut v: Vec<String> = vec![
            "round_trips_exact".into(),
            "decode_agrees".into(),
            "amf3_flagged_decoded_as_amf0".into(),
            "unknown_passthrough".into(),
            "chunk_size_top_bit_refused_encoding".into(),
            "decode_both_reject".into(),
            "type_ids_enumerated".into(),
        ];
        for (c, _) in UC_EVENTS.iter() {
            v.push(format!("user_control_event_{}", c));
        }
        for l in 0..3 {
            v.push(format!("limit_type_{}", l));
        }
        for t in [1, 2, 3, 4, 5, 6, 8, 9, 18, 20] {
            v.push(format!("variant_type{}", t));
        }
        v
    }
    fn exhaustive_part(&self, _tier: Tier) -> Option<String> {
        Some("all 256 type ids (decode direction), user-control codes 0..40, limit codes 0..255".to_string())
    }
}
