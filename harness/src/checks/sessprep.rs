//! Rigs around the real sessions: a reference-encoding peer on the input side, an independent
//! strict decoder on the output side, a virtual clock, and helpers that bring a session into a
//! chosen reachable state by a valid prefix.  Shared by C03, C09, C10, C15, C18.

use crate::refs::amf::{self, V};
use crate::refs::chunk::{Decoder, Encoder, Msg};
use crate::refs::msg::{self, RMsg};
use crate::rng::Rng;
use rml_rtmp::sessions::{
    ClientSession, ClientSessionConfig, ClientSessionEvent, ClientSessionResult, PublishRequestType, ServerSession,
    ServerSessionConfig, ServerSessionEvent, ServerSessionResult,
};

// ---------------------------------------------------------------------------------------------
// reference-side message builders

pub fn command(name: &str, txid: f64, obj: V, args: Vec<V>) -> RMsg {
    RMsg::Command {
        name: name.to_string(),
        txid: txid.to_bits(),
        obj,
        args,
    }
}

pub fn connect_cmd(txid: f64, app: &str) -> RMsg {
    command(
        "connect",
        txid,
        amf::obj(vec![("app", amf::s(app)), ("flashVer", amf::s("FMLE/3.0")), ("tcUrl", amf::s("rtmp://h/app")), ("objectEncoding", amf::num(0.0))]),
        vec![],
    )
}

pub fn status_obj(level: &str, code: &str, desc: &str) -> V {
    amf::obj(vec![("level", amf::s(level)), ("code", amf::s(code)), ("description", amf::s(desc))])
}

/// chunk stream a typical peer would use for a message of this type
pub fn usual_csid(type_id: u8) -> u32 {
    match type_id {
        1..=6 => 2,
        20 | 17 => 3,
        8 => 4,
        9 => 6,
        18 | 15 => 5,
        _ => 7,
    }
}

pub fn wire(enc: &mut Encoder, m: &RMsg, msid: u32, ts: u32) -> Vec<u8> {
    let msg = Msg {
        type_id: m.type_id(),
        msid,
        ts,
        data: m.body(),
    };
    let csid = usual_csid(msg.type_id);
    let bytes = enc.encode_simple(&msg, csid);
    if let RMsg::SetChunkSize(n) = m {
        enc.chunk_size = (*n).max(1) as usize;
    }
    bytes
}

/// (message stream id, timestamp, decoded body) of everything in `packets`, via the strict decoder
pub fn decode_packets(dec: &mut Decoder, packets: &[Vec<u8>]) -> Result<Vec<(u32, u32, RMsg)>, String> {
    let mut out = Vec::new();
    for p in packets {
        for m in dec.feed(p)? {
            let r = msg::decode(m.type_id, &m.data).map_err(|e| format!("message body not well formed (type {}): {}", m.type_id, e))?;
            out.push((m.msid, m.ts, r));
        }
    }
    Ok(out)
}

// ---------------------------------------------------------------------------------------------
// server rig

pub struct ServerRig {
    pub s: ServerSession,
    pub enc: Encoder,
    pub dec: Decoder,
    pub clock: u64,
    pub clock_step: u64,
    /// every packet the session returned so far: (bytes, droppable)
    pub out_packets: Vec<(Vec<u8>, bool)>,
    pub keep_packets: bool,
}

pub struct Step<E> {
    pub packets: Vec<Vec<u8>>,
    pub droppable: Vec<bool>,
    pub events: Vec<E>,
    pub unhandled: usize,
}

impl ServerRig {
    pub fn new(cfg: ServerSessionConfig, start_clock: u64) -> Result<(ServerRig, Step<ServerSessionEvent>), String> {
        rml_rtmp::verif_hooks::set_clock_ms(Some(start_clock));
        let (s, init) = ServerSession::new(cfg).map_err(|e| format!("{:?}", e))?;
        let mut rig = ServerRig {
            s,
            enc: Encoder::new(),
            dec: Decoder::new(true),
            clock: start_clock,
            clock_step: 1,
            out_packets: Vec::new(),
            keep_packets: false,
        };
        let st = rig.absorb(init);
        Ok((rig, st))
    }

    pub fn tick(&mut self) {
        self.clock = self.clock.wrapping_add(self.clock_step);
        rml_rtmp::verif_hooks::set_clock_ms(Some(self.clock));
    }

    pub fn absorb(&mut self, rs: Vec<ServerSessionResult>) -> Step<ServerSessionEvent> {
        let mut st = Step { packets: vec![], droppable: vec![], events: vec![], unhandled: 0 };
        for r in rs {
            match r {
                ServerSessionResult::OutboundResponse(p) => {
                    if self.keep_packets {
                        self.out_packets.push((p.bytes.clone(), p.can_be_dropped));
                    }
                    st.droppable.push(p.can_be_dropped);
                    st.packets.push(p.bytes);
                }
                ServerSessionResult::RaisedEvent(e) => st.events.push(e),
                ServerSessionResult::UnhandleableMessageReceived(_) => st.unhandled += 1,
            }
        }
        st
    }

    pub fn feed(&mut self, bytes: &[u8]) -> Result<Step<ServerSessionEvent>, String> {
        self.tick();
        match self.s.handle_input(bytes) {
            Ok(rs) => Ok(self.absorb(rs)),
            Err(e) => Err(format!("{:?}", e)),
        }
    }

    pub fn send(&mut self, m: &RMsg, msid: u32, ts: u32) -> Result<Step<ServerSessionEvent>, String> {
        let b = wire(&mut self.enc, m, msid, ts);
        self.feed(&b)
    }

    pub fn accept(&mut self, id: u32) -> Result<Step<ServerSessionEvent>, String> {
        self.tick();
        match self.s.accept_request(id) {
            Ok(rs) => Ok(self.absorb(rs)),
            Err(e) => Err(format!("{:?}", e)),
        }
    }

    pub fn reject(&mut self, id: u32) -> Result<Step<ServerSessionEvent>, String> {
        self.tick();
        match self.s.reject_request(id, "NetConnection.Connect.Rejected", "rejected by the application") {
            Ok(rs) => Ok(self.absorb(rs)),
            Err(e) => Err(format!("{:?}", e)),
        }
    }
}

pub fn first_request_id(events: &[ServerSessionEvent]) -> Option<u32> {
    for e in events {
        match e {
            ServerSessionEvent::ConnectionRequested { request_id, .. }
            | ServerSessionEvent::PublishStreamRequested { request_id, .. }
            | ServerSessionEvent::PlayStreamRequested { request_id, .. }
            | ServerSessionEvent::ReleaseStreamRequested { request_id, .. } => return Some(*request_id),
            _ => {}
        }
    }
    None
}

pub const SERVER_STATES: [&str; 10] = [
    "started",
    "connect-outstanding",
    "connected",
    "stream-created",
    "publish-requested",
    "publishing",
    "play-requested",
    "playing",
    "play-completed",
    "stream-closed-after-publish",
];

/// Bring a fresh server session into state `state` (index into SERVER_STATES) by a valid prefix.
/// Returns the rig and the id of the stream that was created (0 if none).
pub fn prep_server(state: usize, rng: &mut Rng) -> Result<(ServerRig, u32), String> {
    let mut cfg = ServerSessionConfig::new();
    cfg.chunk_size = *rng.pick(&[128u32, 4096, 1, 65536]);
    cfg.window_ack_size = *rng.pick(&[2_500_000u32, 1_073_741_824, 100_000]);
    let (mut rig, init) = ServerRig::new(cfg, rng.below(1 << 33))?;
    decode_packets(&mut rig.dec, &init.packets)?;
    let mut stream_id = 0u32;
    if state == 0 {
        return Ok((rig, 0));
    }
    if rng.coin() {
        let st = rig.send(&RMsg::SetChunkSize(*rng.pick(&[128u32, 4096, 60000])), 0, 0)?;
        decode_packets(&mut rig.dec, &st.packets)?;
    }
    let st = rig.send(&connect_cmd(1.0, "live"), 0, 0)?;
    let id = first_request_id(&st.events).ok_or("prefix: no ConnectionRequested")?;
    if state == 1 {
        return Ok((rig, 0));
    }
    let st = rig.accept(id)?;
    decode_packets(&mut rig.dec, &st.packets)?;
    if state == 2 {
        return Ok((rig, 0));
    }
    let st = rig.send(&command("createStream", 2.0, V::Null, vec![]), 0, 0)?;
    for (_, _, m) in decode_packets(&mut rig.dec, &st.packets)? {
        if let RMsg::Command { name, args, .. } = m {
            if name == "_result" {
                if let Some(V::Num(b)) = args.get(0) {
                    stream_id = f64::from_bits(*b) as u32;
                }
            }
        }
    }
    if stream_id == 0 {
        return Err("prefix: createStream gave no stream id".into());
    }
    if state == 3 {
        return Ok((rig, stream_id));
    }
    if state == 4 || state == 5 || state == 9 {
        let st = rig.send(&command("publish", 0.0, V::Null, vec![amf::s("key"), amf::s("live")]), stream_id, 0)?;
        let id = first_request_id(&st.events).ok_or("prefix: no PublishStreamRequested")?;
        if state == 4 {
            return Ok((rig, stream_id));
        }
        let st = rig.accept(id)?;
        decode_packets(&mut rig.dec, &st.packets)?;
        if state == 9 {
            let st = rig.send(&command("closeStream", 0.0, V::Null, vec![amf::num(stream_id as f64)]), stream_id, 0)?;
            decode_packets(&mut rig.dec, &st.packets)?;
        }
        return Ok((rig, stream_id));
    }
    // play branch
    let st = rig.send(&command("play", 0.0, V::Null, vec![amf::s("key")]), stream_id, 0)?;
    let id = first_request_id(&st.events).ok_or("prefix: no PlayStreamRequested")?;
    if state == 6 {
        return Ok((rig, stream_id));
    }
    let st = rig.accept(id)?;
    decode_packets(&mut rig.dec, &st.packets)?;
    if state == 8 {
        rig.tick();
        let p = rig.s.finish_playing(stream_id).map_err(|e| format!("{:?}", e))?;
        decode_packets(&mut rig.dec, &[p.bytes])?;
    }
    Ok((rig, stream_id))
}

// ---------------------------------------------------------------------------------------------
// client rig

pub struct ClientRig {
    pub s: ClientSession,
    pub enc: Encoder,
    pub dec: Decoder,
    pub clock: u64,
    pub clock_step: u64,
    pub out_packets: Vec<(Vec<u8>, bool)>,
    pub keep_packets: bool,
}

impl ClientRig {
    pub fn new(cfg: ClientSessionConfig, start_clock: u64) -> Result<ClientRig, String> {
        rml_rtmp::verif_hooks::set_clock_ms(Some(start_clock));
        let (s, _) = ClientSession::new(cfg).map_err(|e| format!("{:?}", e))?;
        Ok(ClientRig {
            s,
            enc: Encoder::new(),
            dec: Decoder::new(true),
            clock: start_clock,
            clock_step: 1,
            out_packets: Vec::new(),
            keep_packets: false,
        })
    }

    pub fn tick(&mut self) {
        self.clock = self.clock.wrapping_add(self.clock_step);
        rml_rtmp::verif_hooks::set_clock_ms(Some(self.clock));
    }

    pub fn absorb(&mut self, rs: Vec<ClientSessionResult>) -> Step<ClientSessionEvent> {
        let mut st = Step { packets: vec![], droppable: vec![], events: vec![], unhandled: 0 };
        for r in rs {
            match r {
                ClientSessionResult::OutboundResponse(p) => {
                    if self.keep_packets {
                        self.out_packets.push((p.bytes.clone(), p.can_be_dropped));
                    }
                    st.droppable.push(p.can_be_dropped);
                    st.packets.push(p.bytes);
                }
                ClientSessionResult::RaisedEvent(e) => st.events.push(e),
                ClientSessionResult::UnhandleableMessageReceived(_) => st.unhandled += 1,
            }
        }
        st
    }

    pub fn feed(&mut self, bytes: &[u8]) -> Result<Step<ClientSessionEvent>, String> {
        self.tick();
        match self.s.handle_input(bytes) {
            Ok(rs) => Ok(self.absorb(rs)),
            Err(e) => Err(format!("{:?}", e)),
        }
    }

    pub fn send(&mut self, m: &RMsg, msid: u32, ts: u32) -> Result<Step<ClientSessionEvent>, String> {
        let b = wire(&mut self.enc, m, msid, ts);
        self.feed(&b)
    }

    pub fn one(&mut self, r: Result<ClientSessionResult, rml_rtmp::sessions::ClientSessionError>) -> Result<Step<ClientSessionEvent>, String> {
        match r {
            Ok(r) => Ok(self.absorb(vec![r])),
            Err(e) => Err(format!("{:?}", e)),
        }
    }
}

/// transaction id of the first command named `name` among decoded messages
pub fn txid_of(msgs: &[(u32, u32, RMsg)], name: &str) -> Option<f64> {
    for (_, _, m) in msgs {
        if let RMsg::Command { name: n, txid, .. } = m {
            if n == name {
                return Some(f64::from_bits(*txid));
            }
        }
    }
    None
}

pub const CLIENT_STATES: [&str; 10] = [
    "disconnected",
    "connect-requested",
    "connected",
    "create-stream-outstanding(play)",
    "play-requested",
    "playing",
    "create-stream-outstanding(publish)",
    "publish-requested",
    "publishing",
    "connected-after-stop",
];

pub const CLIENT_STREAM_ID: u32 = 5;

pub fn prep_client(state: usize, rng: &mut Rng) -> Result<ClientRig, String> {
    prep_client_with(state, rng, None, None)
}

/// `announce_window`: None = the server opening announces a window in half of the prefixes;
/// Some(false) = never (C17 starts its accounting from a session that has not learned a window).
/// `own_window`: the client's own configured window (None: library default).
pub fn prep_client_with(state: usize, rng: &mut Rng, announce_window: Option<bool>, own_window: Option<u32>) -> Result<ClientRig, String> {
    let mut cfg = ClientSessionConfig::new();
    if let Some(w) = own_window {
        cfg.window_ack_size = w;
    }
    cfg.chunk_size = *rng.pick(&[128u32, 4096, 1, 65536]);
    let mut rig = ClientRig::new(cfg, rng.below(1 << 33))?;
    if state == 0 {
        return Ok(rig);
    }
    rig.tick();
    let r = rig.s.request_connection("live".to_string());
    let st = rig.one(r)?;
    let ms = decode_packets(&mut rig.dec, &st.packets)?;
    let tx = txid_of(&ms, "connect").ok_or("prefix: no connect command emitted")?;
    if state == 1 {
        return Ok(rig);
    }
    // a typical server opening: window ack size, peer bandwidth, chunk size, then the result
    let opening = rng.coin();
    if opening {
        if announce_window.unwrap_or(true) {
            rig.send(&RMsg::WinAck(2_500_000), 0, 0)?;
        }
        rig.send(&RMsg::SetPeerBw(2_500_000, 2), 0, 0)?;
        let st = rig.send(&RMsg::SetChunkSize(*rng.pick(&[128u32, 4096, 60000])), 0, 0)?;
        decode_packets(&mut rig.dec, &st.packets)?;
    }
    let st = rig.send(
        &command("_result", tx, amf::obj(vec![("fmsVer", amf::s("FMS/3,0,1,123")), ("capabilities", amf::num(31.0))]), vec![status_obj("status", "NetConnection.Connect.Success", "ok")]),
        0,
        0,
    )?;
    decode_packets(&mut rig.dec, &st.packets)?;
    if !st.events.iter().any(|e| matches!(e, ClientSessionEvent::ConnectionRequestAccepted)) {
        return Err("prefix: connect result did not raise ConnectionRequestAccepted".into());
    }
    if state == 2 {
        return Ok(rig);
    }
    let play = state == 3 || state == 4 || state == 5;
    rig.tick();
    let r = if play || (state == 9 && rng.coin()) { rig.s.request_playback("key".to_string()) } else { rig.s.request_publishing("key".to_string(), PublishRequestType::Live) };
    let st = rig.one(r)?;
    let ms = decode_packets(&mut rig.dec, &st.packets)?;
    let tx = txid_of(&ms, "createStream").ok_or("prefix: no createStream emitted")?;
    if state == 3 || state == 6 {
        return Ok(rig);
    }
    let st = rig.send(&command("_result", tx, V::Null, vec![amf::num(CLIENT_STREAM_ID as f64)]), 0, 0)?;
    let ms = decode_packets(&mut rig.dec, &st.packets)?;
    let was_play = txid_of(&ms, "play").is_some();
    if state == 4 || state == 7 {
        return Ok(rig);
    }
    let code = if was_play { "NetStream.Play.Start" } else { "NetStream.Publish.Start" };
    let st = rig.send(&command("onStatus", 0.0, V::Null, vec![status_obj("status", code, "started")]), CLIENT_STREAM_ID, 0)?;
    decode_packets(&mut rig.dec, &st.packets)?;
    if state == 9 {
        rig.tick();
        let r = if was_play { rig.s.stop_playback() } else { rig.s.stop_publishing() };
        let rs = r.map_err(|e| format!("{:?}", e))?;
        let st = rig.absorb(rs);
        decode_packets(&mut rig.dec, &st.packets)?;
    }
    Ok(rig)
}

// ---------------------------------------------------------------------------------------------
// canonical, comparable renderings of events (f64 by bit pattern, objects as sorted maps)

pub fn norm_server_event(e: &ServerSessionEvent) -> String {
    match e {
        ServerSessionEvent::UnhandleableAmf0Command { command_name, transaction_id, command_object, additional_values } => format!(
            "UnhandleableAmf0Command name={:?} txid_bits={:016x} object={:?} values={:?}",
            command_name,
            transaction_id.to_bits(),
            V::from_lib(command_object),
            amf::seq_from_lib(additional_values)
        ),
        other => format!("{:?}", other),
    }
}

pub fn norm_client_event(e: &ClientSessionEvent) -> String {
    match e {
        ClientSessionEvent::UnhandleableAmf0Command { command_name, transaction_id, command_object, additional_values } => format!(
            "UnhandleableAmf0Command name={:?} txid_bits={:016x} object={:?} values={:?}",
            command_name,
            transaction_id.to_bits(),
            V::from_lib(command_object),
            amf::seq_from_lib(additional_values)
        ),
        ClientSessionEvent::UnknownTransactionResultReceived { transaction_id, command_object, additional_values } => format!(
            "UnknownTransactionResultReceived txid_bits={:016x} object={:?} values={:?}",
            transaction_id.to_bits(),
            V::from_lib(command_object),
            amf::seq_from_lib(additional_values)
        ),
        other => format!("{:?}", other),
    }
}
