//! C18 - everything a session emits stays decodable by a conformant peer, at any uptime.
//! Session histories (the C09 / C10 walks with media sends) under a virtual clock around 2^24 and
//! 2^32 ms; every returned packet is logged; the log minus any subset of droppable packets must be
//! a well-formed chunk stream whose messages are well formed and on the expected message streams.

use super::c02::ClockGuard;
use super::c07::clause_of;
use super::c08::subsets;
use super::c09;
use super::c10;
use super::sessprep::{self, ClientRig, ServerRig};
use crate::fw::{Check, Out, Plan, Tier};
use crate::model::client as mc;
use crate::model::server as ms;
use crate::refs::amf::V;
use crate::refs::chunk::{self, Decoder};
use crate::refs::msg::{self, RMsg};
use crate::rng::{hex_short, mix, Rng};
use rml_rtmp::sessions::{ClientSessionConfig, ServerSessionConfig};
use serde_json::{json, Value};

pub struct C18;

const CHUNKS: [u32; 8] = [1, 2, 127, 128, 129, 4096, 65536, 0x7FFF_FFFF];

/// what the history expects of one logged packet
struct Expect {
    step: usize,
    op: String,
    /// session clock (as u32) when the call was made
    clock: u32,
    droppable: bool,
    /// Some(id): messages tied to a stream must be on this message stream
    stream: Option<u32>,
}

fn start_clock(rng: &mut Rng) -> u64 {
    let k = rng.below(3000);
    match rng.below(10) {
        0 => 0,
        1 => (1u64 << 24) - k,
        2 => 1u64 << 24,
        3 => (1u64 << 31) - k,
        4 => (1u64 << 31) + k,
        5 => (1u64 << 32) - k,
        6 => (1u64 << 32) + k,
        7 => 2 * (1u64 << 32) + k,
        8 => (1u64 << 32) - 1 - rng.below(3),
        _ => rng.below(1u64 << 33),
    }
}

fn clock_step(rng: &mut Rng) -> u64 {
    *rng.pick(&[0u64, 0, 1, 1, 40, 40, 1000, 1 << 24, 1 << 31, 0xFFFFFF, 33])
}

/// Judge the logged packets: full decode, per-message expectations, then drop subsets.
fn judge_log(
    who: &str,
    packets: &[(Vec<u8>, bool)],
    expect: &[Expect],
    crossed: (bool, bool),
    tier: Tier,
    rng: &mut Rng,
    out: &mut Out,
    history: &Value,
) -> bool {
    assert_eq!(packets.len(), expect.len());
    let witness = |extra: Value| json!({"session": who, "detail": extra, "history": history});
    // ---- full run: one message per packet, well formed, expected streams, droppable marks
    let mut d = Decoder::new(true);
    let mut full: Vec<chunk::Msg> = Vec::new();
    for (i, (bytes, can_drop)) in packets.iter().enumerate() {
        let e = &expect[i];
        let got = match d.feed(bytes) {
            Ok(m) => m,
            Err(err) => {
                out.violation(
                    &format!("emitted-stream-not-well-formed:{}", clause_of(&err)),
                    witness(json!({"clause": err, "packet_index": i, "produced_by": e.op, "packet": hex_short(bytes, 120)})),
                );
                return false;
            }
        };
        if got.len() != 1 || !d.idle() {
            out.violation(
                "packet-is-not-exactly-one-whole-message",
                witness(json!({"packet_index": i, "messages_completed": got.len(), "produced_by": e.op, "packet": hex_short(bytes, 120)})),
            );
            return false;
        }
        let m = &got[0];
        // "set only on media the application asked to be droppable": a mark the application did
        // not ask for is a violation; a mark withheld (say, on a sequence header) is not
        if e.droppable && !*can_drop {
            out.count("droppable_asked_but_not_marked", 1);
        }
        if *can_drop && !e.droppable {
            out.violation(
                "droppable-mark-on-a-packet-the-application-did-not-ask-to-be-droppable",
                witness(json!({"packet_index": i, "can_be_dropped": can_drop, "asked": e.droppable, "produced_by": e.op})),
            );
            return false;
        }
        let body = match msg::decode(m.type_id, &m.data) {
            Ok(b) => b,
            Err(err) => {
                out.violation(
                    &format!("emitted-message-not-well-formed:type{}", m.type_id),
                    witness(json!({"error": err, "packet_index": i, "produced_by": e.op, "body": hex_short(&m.data, 120)})),
                );
                return false;
            }
        };
        // expected message stream
        let tied_to_stream = match &body {
            RMsg::SetChunkSize(_) | RMsg::Abort(_) | RMsg::Ack(_) | RMsg::WinAck(_) | RMsg::SetPeerBw(..) => Some(0u32),
            RMsg::UserControl(..) => None, // SHOULD be 0; the library uses the stream's id for StreamBegin: counted, not judged
            RMsg::Audio(_) | RMsg::Video(_) | RMsg::Data(_) => e.stream,
            RMsg::Command { name, .. } => match name.as_str() {
                "connect" | "createStream" | "onBWDone" => Some(0),
                "_result" => Some(0),
                "_error" | "onStatus" | "play" | "publish" | "deleteStream" => e.stream,
                _ => None,
            },
            RMsg::Unknown(..) => None,
        };
        if let Some(want) = tied_to_stream {
            if m.msid != want {
                let name = match &body {
                    RMsg::Command { name, args, .. } => {
                        let code = match args.get(0) {
                            Some(V::Obj(p)) => p.iter().find(|x| x.0 == "code").map(|x| format!("{:?}", x.1)).unwrap_or_default(),
                            _ => String::new(),
                        };
                        format!("command {} {}", name, code)
                    }
                    other => format!("type {}", other.type_id()),
                };
                out.violation(
                    "message-on-unexpected-message-stream",
                    witness(json!({"packet_index": i, "message": name, "decoded_msid": m.msid, "expected_msid": want, "produced_by": e.op, "packet": hex_short(bytes, 120)})),
                );
                return false;
            }
        }
        if let RMsg::UserControl(code, f) = &body {
            if m.msid != 0 {
                out.count("user_control_on_nonzero_message_stream", 1);
            }
            let _ = (code, f);
        }
        // session-originated messages carry the session clock (mod 2^32); chunk-size changes carry 0
        let session_clocked = !matches!(body, RMsg::Audio(_) | RMsg::Video(_));
        if session_clocked {
            let ok = match body {
                RMsg::SetChunkSize(_) => m.ts == 0 || m.ts == e.clock,
                _ => m.ts == e.clock,
            };
            // informational only: the statement requires decodability at any uptime, not a
            // particular timestamp policy (a library stamping control messages with 0 is fine)
            out.count(if ok { "session_timestamps_equal_to_clock_mod_2^32" } else { "session_timestamps_differing_from_clock" }, 1);
        }
        full.push(m.clone());
    }
    let ext_headers: u64 = d.matrix.iter().map(|f| f[1][0] + f[1][1]).sum();
    out.count("emitted_headers_with_extended_timestamp", ext_headers);
    chunk::matrix_counters(&d.matrix, &format!("{}_", who), out);
    out.count("packets_judged", packets.len() as u64);
    if crossed.0 {
        out.count("histories_crossing_2^24_ms", 1);
    }
    if crossed.1 {
        out.count("histories_crossing_2^32_ms", 1);
    }
    // ---- drop subsets
    let droppable_idx: Vec<usize> = packets.iter().enumerate().filter(|(_, p)| p.1).map(|(i, _)| i).collect();
    let k = droppable_idx.len();
    let (subs, exhaustive) = subsets(k, tier.pick(5, 8), tier.pick(10, 60), rng);
    out.count(if exhaustive { "histories_all_drop_subsets" } else { "histories_sampled_drop_subsets" }, 1);
    out.maxv("max_droppable_packets_in_history", k as u64);
    for sub in subs {
        if sub == 0 {
            continue;
        }
        out.eval(1);
        let mut d = Decoder::new(true);
        let mut want: Vec<&chunk::Msg> = Vec::new();
        let mut got: Vec<chunk::Msg> = Vec::new();
        let mut dropped: Vec<usize> = Vec::new();
        for (i, (bytes, _)) in packets.iter().enumerate() {
            if let Some(j) = droppable_idx.iter().position(|x| *x == i) {
                if j < 64 && sub & (1 << j) != 0 {
                    dropped.push(i);
                    continue;
                }
            }
            want.push(&full[i]);
            match d.feed(bytes) {
                Ok(m) => got.extend(m),
                Err(err) => {
                    out.violation(
                        &format!("not-decodable-after-dropping-droppable-packets:{}", clause_of(&err)),
                        witness(json!({"clause": err, "dropped_packet_indices": dropped, "failing_packet_index": i, "produced_by": expect[i].op})),
                    );
                    return false;
                }
            }
        }
        let same = got.len() == want.len() && got.iter().zip(want.iter()).all(|(a, b)| a == *b);
        if !same || !d.idle() {
            let at = got.iter().zip(want.iter()).position(|(a, b)| a != *b);
            out.violation(
                "decodes-differently-after-dropping-droppable-packets",
                witness(json!({"dropped_packet_indices": dropped, "first_differing_message": at, "got": at.map(|i| got[i].brief()), "want": at.map(|i| want[i].brief())})),
            );
            return false;
        }
        out.count("drop_subset_executions_ok", 1);
    }
    true
}

fn run_server(tier: Tier, rng: &mut Rng, out: &mut Out) {
    out.eval(1);
    let mut cfg = ServerSessionConfig::new();
    cfg.fms_version = rng.spice(cfg.fms_version.clone());
    cfg.chunk_size = if rng.chance(1, 6) { rng.range(1, 0x7FFF_FFFF) as u32 } else { *rng.pick(&CHUNKS) };
    cfg.window_ack_size = *rng.pick(&[1u32, 100, 2_500_000, 0xFFFF_FFFF]);
    cfg.send_on_bw_done_message_on_start = rng.coin();
    let start = start_clock(rng);
    let (mut rig, init) = match ServerRig::new(cfg, start) {
        Ok(x) => x,
        Err(e) => {
            out.violation("server-session-new-fails", json!({ "error": e }));
            return;
        }
    };
    rig.keep_packets = true;
    let mut expect: Vec<Expect> = Vec::new();
    for (b, d) in init.packets.iter().zip(init.droppable.iter()) {
        rig.out_packets.push((b.clone(), *d));
        expect.push(Expect { step: 0, op: "ServerSession::new".into(), clock: start as u32, droppable: false, stream: None });
    }
    if sessprep::decode_packets(&mut rig.dec, &init.packets).is_err() {
        // judged below with a proper witness
    }
    let mut model = ms::Model::new();
    // half of the histories are steady: media of one size at a constant spacing
    let mut steady: Option<(u32, u32)> = if rng.coin() { Some((rng.u32_boundary(), *rng.pick(&[0u32, 20, 33, 40, 1000]))) } else { None };
    let steady_len = *rng.pick(&[0usize, 1, 10, 127, 128, 129, 300]);
    let mut log: Vec<Value> = vec![json!({"start_clock_ms": start})];
    let many_streams: usize = if rng.chance(1, 15) { rng.usize(25, 70) } else { 0 };
    let len = rng.usize(5, 50) + 2 * many_streams;
    let (mut c24, mut c32) = (false, false);
    let mut shape = 0u64;
    // the window announcement makes acknowledgements appear in the log as well
    let announce_window = rng.chance(1, 3);
    for step in 0..len {
        let before_clock = rig.clock;
        rig.clock_step = clock_step(rng);
        let sym = if announce_window && step == 1 {
            None
        } else {
            // media sends are frequent here
            // one history in fifteen creates 25-70 streams once connected and plays / publishes on
            // any of them (message stream ids beyond the first few)
            Some(if many_streams > 0 && model.connected_app.is_some() && model.streams.len() < many_streams {
                c09::Sym::CreateStream
            } else if many_streams > 0 && rng.chance(1, 3) {
                let any = c09::StreamSel::Random(rng.u8());
                *rng.pick(&[c09::Sym::Play(any, c09::ArgForm::Good), c09::Sym::Publish(any, c09::ArgForm::Good), c09::Sym::SendVideo(any), c09::Sym::SendAudio(any), c09::Sym::Accept(c09::IdSel::Oldest), c09::Sym::Accept(c09::IdSel::Oldest)])
            } else if rng.chance(1, 4) {
                *rng.pick(&[c09::Sym::SendAudio(c09::StreamSel::Last), c09::Sym::SendVideo(c09::StreamSel::Last), c09::Sym::SendVideo(c09::StreamSel::First), c09::Sym::SendMeta(c09::StreamSel::Last), c09::Sym::PingRequest])
            } else {
                c09::random_sym(rng, &model)
            })
        };
        let n0 = rig.out_packets.len();
        let (op_s, stream, asked_drop, ended): (String, Option<u32>, bool, bool) = match sym {
            None => {
                let w = *rng.pick(&[1u32, 50, 1000]);
                let r = rig.send(&RMsg::WinAck(w), 0, 0);
                (format!("peer announces window {}", w), None, false, r.is_err())
            }
            Some(sym) => {
                let mut op = c09::resolve(sym, &model, rng, step);
                // larger media than the C09 walks use
                if let ms::Op::SendAudio { data, ts, .. } | ms::Op::SendVideo { data, ts, .. } = &mut op {
                    let n = if steady.is_some() { steady_len } else { *rng.pick(&[0usize, 1, 127, 128, 129, 5000, 70_000, 200_000]) };
                    *data = rng.bytes(n.min(if rig.s_chunk() <= 2 { 3000 } else { 200_000 }));
                    let t = if rng.coin() { 8 } else { 9 };
                    rng.flv_prefix(t, data);
                    // steady histories: media of one size at a constant spacing (frames of a
                    // constant-bit-rate stream), so consecutive headers compress as far as they can
                    if let Some((clock, delta)) = steady.as_mut() {
                        *clock = clock.wrapping_add(*delta);
                        *ts = *clock;
                    }
                }
                let stream = match &op {
                    ms::Op::Accept { id } | ms::Op::Reject { id } => match model.outstanding.get(id) {
                        Some(ms::Req::Publish { stream, .. }) | Some(ms::Req::Play { stream, .. }) => Some(*stream),
                        Some(ms::Req::Connect { .. }) => Some(0),
                        None => None,
                    },
                    ms::Op::SendAudio { stream, .. } | ms::Op::SendVideo { stream, .. } | ms::Op::SendMetadata { stream } | ms::Op::FinishPlaying { stream } => Some(*stream),
                    ms::Op::Publish { msid, .. } | ms::Op::Play { msid, .. } => Some(*msid),
                    _ => None,
                };
                let asked = matches!(&op, ms::Op::SendAudio { drop: true, .. } | ms::Op::SendVideo { drop: true, .. });
                let obs = match c09::execute(&mut rig, &op) {
                    Ok(o) => o,
                    Err((loc, msg)) => {
                        out.violation(&crate::fw::panic_signature(&loc, &msg), json!({"panic_at": loc, "panic_message": msg, "op": c09::op_json(&op), "history": log}));
                        return;
                    }
                };
                let ended = match model.step(&op, &obs) {
                    ms::Verdict::Agree => false,
                    _ => true, // divergences from the state machine are C09's business; the log so far is still judged
                };
                shape = mix(shape, crate::rng::fnv(format!("{:?}", sym).as_bytes()));
                (format!("{:?}", op).chars().take(140).collect(), stream, asked, ended || (!obs.ok && c09::peer_message(&op).is_some()))
            }
        };
        let after_clock = rig.clock;
        if before_clock < (1 << 24) && after_clock >= (1 << 24) || (after_clock as u32 >= 0xFFFFFF && (before_clock as u32) < 0xFFFFFF) {
            c24 = true;
        }
        if (before_clock >> 32) != (after_clock >> 32) {
            c32 = true;
        }
        for _ in n0..rig.out_packets.len() {
            expect.push(Expect { step, op: op_s.clone(), clock: rig.clock as u32, droppable: asked_drop, stream });
        }
        if log.len() < 70 {
            log.push(json!({"step": step, "clock_ms": rig.clock, "op": op_s, "packets": rig.out_packets.len() - n0}));
        }
        if ended {
            break;
        }
    }
    let history = json!({"config": {"chunk_size": rig_chunk_note(&rig)}, "steps": log});
    let packets = std::mem::take(&mut rig.out_packets);
    if judge_log("server", &packets, &expect, (c24, c32), tier, rng, out, &history) {
        out.count("server_histories_ok", 1);
    }
    out.shape(mix(shape, mix(start >> 23, packets.len() as u64)));
    out.sample(|| json!({"session": "server", "history": history, "packets": packets.len()}));
    let _ = expect.iter().map(|e| e.step).max();
}

fn rig_chunk_note(rig: &ServerRig) -> usize {
    rig.dec.chunk_size
}

trait ChunkOf {
    fn s_chunk(&self) -> usize;
}
impl ChunkOf for ServerRig {
    fn s_chunk(&self) -> usize {
        self.dec.chunk_size
    }
}
impl ChunkOf for ClientRig {
    fn s_chunk(&self) -> usize {
        self.dec.chunk_size
    }
}

fn run_client(tier: Tier, rng: &mut Rng, out: &mut Out) {
    out.eval(1);
    let mut cfg = ClientSessionConfig::new();
    cfg.flash_version = rng.spice(cfg.flash_version.clone());
    if rng.chance(1, 4) {
        cfg.tc_url = Some(rng.spice("rtmp://host/app".to_string()));
    }
    cfg.chunk_size = if rng.chance(1, 6) { rng.range(1, 0x7FFF_FFFF) as u32 } else { *rng.pick(&CHUNKS) };
    cfg.window_ack_size = *rng.pick(&[1u32, 100, 2_500_000, 0xFFFF_FFFF]);
    cfg.playback_buffer_length_ms = rng.u32_boundary();
    let start = start_clock(rng);
    let mut rig = match ClientRig::new(cfg, start) {
        Ok(r) => r,
        Err(e) => {
            out.violation("client-session-new-fails", json!({ "error": e }));
            return;
        }
    };
    rig.keep_packets = true;
    let mut expect: Vec<Expect> = Vec::new();
    let mut model = mc::Model::new();
    let mut steady: Option<(u32, u32)> = if rng.coin() { Some((rng.u32_boundary(), *rng.pick(&[0u32, 20, 33, 40, 1000]))) } else { None };
    let steady_len = *rng.pick(&[0usize, 1, 10, 127, 128, 129, 300]);
    let mut log: Vec<Value> = vec![json!({"start_clock_ms": start})];
    let len = rng.usize(5, 50);
    let (mut c24, mut c32) = (false, false);
    let mut shape = 0u64;
    let announce_window = rng.chance(1, 3);
    for step in 0..len {
        let before_clock = rig.clock;
        rig.clock_step = clock_step(rng);
        let n0 = rig.out_packets.len();
        let (op_s, stream, asked_drop, ended): (String, Option<u32>, bool, bool) = if announce_window && step == 1 {
            let w = *rng.pick(&[1u32, 50, 1000]);
            let r = rig.send(&RMsg::WinAck(w), 0, 0);
            (format!("peer announces window {}", w), None, false, r.is_err())
        } else {
            let sym = if rng.chance(1, 4) && model.st == mc::St::Publishing { *rng.pick(&[c10::Sym::PublishVideo, c10::Sym::PublishAudio, c10::Sym::PublishMetadata, c10::Sym::SendPing]) } else { c10::random_sym(rng, &model) };
            let mut op = c10::resolve(sym, &model, rng, step);
            if let mc::Op::PublishAudio { data, ts, .. } | mc::Op::PublishVideo { data, ts, .. } = &mut op {
                if let Some((clock, delta)) = steady.as_mut() {
                    *clock = clock.wrapping_add(*delta);
                    *ts = *clock;
                }
                let n = if steady.is_some() { steady_len } else { *rng.pick(&[0usize, 1, 127, 128, 129, 5000, 70_000, 200_000]) };
                *data = rng.bytes(n.min(if rig.s_chunk() <= 2 { 3000 } else { 200_000 }));
                    let t = if rng.coin() { 8 } else { 9 };
                    rng.flv_prefix(t, data);
            }
            // the stream the emitted stream-level messages belong to
            let stream = match &op {
                mc::Op::Result { stream_id: Some(s), non_number: false, .. } => Some(*s as u32),
                mc::Op::StopPlayback | mc::Op::StopPublishing | mc::Op::PublishMetadata | mc::Op::PublishAudio { .. } | mc::Op::PublishVideo { .. } => model.active_stream,
                _ => None,
            };
            let asked = matches!(&op, mc::Op::PublishAudio { drop: true, .. } | mc::Op::PublishVideo { drop: true, .. });
            let obs = match c10::execute(&mut rig, &op) {
                Ok(o) => o,
                Err((loc, msg)) => {
                    out.violation(&crate::fw::panic_signature(&loc, &msg), json!({"panic_at": loc, "panic_message": msg, "op": c10::op_json(&op), "history": log}));
                    return;
                }
            };
            let ended = !matches!(model.step(&op, &obs), mc::Verdict::Agree);
            shape = mix(shape, crate::rng::fnv(format!("{:?}", sym).as_bytes()));
            (format!("{:?}", op).chars().take(140).collect(), stream, asked, ended || (!obs.ok && c10::server_message(&op).is_some()))
        };
        let after_clock = rig.clock;
        if (after_clock as u32 >= 0xFFFFFF && (before_clock as u32) < 0xFFFFFF) || (before_clock < (1 << 24) && after_clock >= (1 << 24)) {
            c24 = true;
        }
        if (before_clock >> 32) != (after_clock >> 32) {
            c32 = true;
        }
        for _ in n0..rig.out_packets.len() {
            expect.push(Expect { step, op: op_s.clone(), clock: rig.clock as u32, droppable: asked_drop, stream });
        }
        if log.len() < 70 {
            log.push(json!({"step": step, "clock_ms": rig.clock, "op": op_s, "packets": rig.out_packets.len() - n0}));
        }
        if ended {
            break;
        }
    }
    let history = json!({ "steps": log });
    let packets = std::mem::take(&mut rig.out_packets);
    if judge_log("client", &packets, &expect, (c24, c32), tier, rng, out, &history) {
        out.count("client_histories_ok", 1);
    }
    out.shape(mix(shape ^ 0xC11E, mix(start >> 23, packets.len() as u64)));
    out.sample(|| json!({"session": "client", "history": history, "packets": packets.len()}));
}

impl Check for C18 {
    fn id(&self) -> &'static str {
        "C18"
    }
    fn plan(&self, tier: Tier) -> Plan {
        let mut p = Plan::new(tier.pick(48_000, 4_800_000), tier.pick(35.0, 480.0));
        p.cpu_budget_s = 120.0;
        p
    }
    fn selftest(&self) -> Result<(), String> {
        chunk::selftest()?;
        msg::selftest()
    }
    fn run_case(&self, tier: Tier, k: u64, rng: &mut Rng, out: &mut Out) {
        let _cg = ClockGuard;
        if k % 2 == 0 {
            run_server(tier, rng, out);
        } else {
            run_client(tier, rng, out);
        }
    }
    fn rule(&self) -> String {
        "session histories of 5-50 steps: the C09 (server) and C10 (client) symbol walks with a quarter of the steps replaced by media / metadata / ping sends (payloads {0,1,127,128,129,5000,70000,200000}, droppable flags, arbitrary timestamps; in half of the histories media of one size at a constant spacing of 0-1000 ms), optionally a peer window announcement so acknowledgements appear; configurations: chunk size {1,2,127,128,129,4096,65536,2^31-1, uniform}, window {1,100,2.5M,2^32-1}, onBWDone on/off. Virtual session clock: start from {0, 2^24-k, 2^24, 2^31+-k, 2^32-k, 2^32-1-j, 2^32+k, 2*2^32+k, uniform 0..2^33} and advance before each call by {0,1,33,40,1000,2^24-1,2^24,2^31}. Every packet every public call returned is logged in order with what the history expects of it. The independent strict decoder must decode the log packet by packet (each packet exactly one whole message), every message body must be well formed per the reference layouts, protocol-control and connection-level messages on message stream 0 and stream-level commands/media on the stream of the operation that produced them, droppable mark never on a packet the application did not ask to be droppable (a mark withheld is counted, not judged; whether session-originated timestamps equal the session clock modulo 2^32 is counted, not judged); then every subset (k <= 5, thorough 8; sampled beyond) of the droppable packets is removed and the rest must decode to exactly the same messages. distinct = (symbol sequence hash, start clock class, packets).".to_string()
    }
    fn assumptions(&self) -> Vec<String> {
        vec![
            "user-control messages on a non-zero message stream (the library sends StreamBegin on the stream's own id) are counted, not judged: the specification says SHOULD".to_string(),
            "divergences from the protocol state machine end a history here without a verdict (they are C09/C10's)".to_string(),
            "virtual clock injected through the verif_hooks feature; the library's own 'as u32' truncation still runs on the hooked value".to_string(),
        ]
    }
    fn required_counters(&self, _tier: Tier) -> Vec<String> {
        vec![
            "server_histories_ok".into(),
            "client_histories_ok".into(),
            "packets_judged".into(),
            "emitted_headers_with_extended_timestamp".into(),
            "histories_crossing_2^24_ms".into(),
            "histories_crossing_2^32_ms".into(),
            "histories_all_drop_subsets".into(),
            "drop_subset_executions_ok".into(),
        ]
    }
    fn soft_counters(&self, _tier: Tier) -> Vec<String> {
        vec!["server_fmt0_ext_first".into(), "server_fmt1_ext_first".into(), "client_fmt0_ext_first".into(), "server_fmt3_noext_continuation".into()]
    }
}
