//! C16 - messages interleaved on different chunk streams are each reassembled intact.
//! Oracle: independent per-csid reassembly.  The pinned library had one partial-payload buffer
//! for all chunk streams (F10, repaired by df98ad5).  The stream is fed in two phases around the
//! first overlap point, so a regression is classified: a divergence that begins at or after the
//! first overlap is reported under the signature the former known finding used, anything wrong
//! before it (or in a history without overlap) under its own signature.

use crate::adapt::lib_feed;
use crate::fw::{lib_call, Check, Out, Plan, Tier};
use crate::refs::chunk::{self, Choice, CsidForm, Decoder, Encoder, Msg};
use crate::rng::{mix, partition, Rng};
use rml_rtmp::chunk_io::ChunkDeserializer;
use serde_json::json;

pub struct C16;

pub const KNOWN_SIG: &str = "first-divergence-at-or-after-first-csid-overlap";

struct Hist {
    /// chunks on the wire in order: (message index, bytes)
    wire_chunks: Vec<(usize, Vec<u8>)>,
    msgs: Vec<Msg>,
    csids: Vec<u32>,
    schedule: &'static str,
    cs: usize,
}

fn gen_hist(rng: &mut Rng) -> Hist {
    let mut enc = Encoder::new();
    let cs = *rng.pick(&[1usize, 2, 5, 16, 128, 128, 128, 200]);
    enc.chunk_size = cs; // both sides are told below
    // steady mode: every chunk stream ticks with its own constant delta and keeps its message
    // shape, so that later rounds start their messages with format 2 and format 3 headers
    let steady = rng.coin();
    let rounds = if steady { rng.usize(2, 5) } else { rng.usize(1, 3) };
    let mut clocks: std::collections::HashMap<u32, (u32, u32, u8, u32, usize)> = std::collections::HashMap::new();
    let mut wire_chunks: Vec<(usize, Vec<u8>)> = Vec::new();
    let mut msgs: Vec<Msg> = Vec::new();
    let mut csids_all: Vec<u32> = Vec::new();
    let schedule = *rng.pick(&["no-overlap", "audio-inside-video", "round-robin", "random", "random", "pairwise"]);
    let mut pool: Vec<u32> = Vec::new();
    while pool.len() < 6 {
        // aliasing candidates: ids that collide under truncation or masking of an earlier one
        let c = match pool.last() {
            Some(&b) if rng.chance(1, 3) => {
                let d = *rng.pick(&[64u32, 256, 65536, 192, 1]);
                if b + d <= 65599 {
                    b + d
                } else if b > d + 1 {
                    b - d
                } else {
                    super::foreign::pick_csid(rng)
                }
            }
            _ => super::foreign::pick_csid(rng),
        };
        if !pool.contains(&c) && (2..=65599).contains(&c) {
            pool.push(c);
        }
    }
    let mut ts = rng.u32_boundary();
    // one history in 400 first opens more than a thousand chunk streams (the six of the pool first,
    // then 1,100 others, one small single-chunk message each): whatever a deserializer remembers
    // per chunk stream must still be there when the early ones are used again
    if rng.chance(1, 400) {
        let mut ids: Vec<u32> = pool.clone();
        let mut c = 2u32;
        while ids.len() < 6 + 1100 {
            if !pool.contains(&c) {
                ids.push(c);
            }
            c += 1;
        }
        for (i, csid) in ids.iter().enumerate() {
            let m = Msg { type_id: 8, msid: 1, ts: ts.wrapping_add(i as u32), data: vec![(i & 0xFF) as u8; (i % 3).min(cs)] };
            let c = Choice { csid: *csid, form: CsidForm::Min, fmt: 0 };
            let chunks = enc.encode(&m, &c);
            let idx = msgs.len();
            for ch in chunks {
                wire_chunks.push((idx, ch));
            }
            if steady && i < 6 {
                clocks.insert(*csid, (m.ts, 20, 8, 1, m.data.len()));
            }
            msgs.push(m);
            csids_all.push(*csid);
        }
        ts = ts.wrapping_add(2000);
    }
    for _ in 0..rounds {
        let nmsg = rng.usize(2, 6);
        let mut group: Vec<Vec<Vec<u8>>> = Vec::new();
        let base = msgs.len();
        for j in 0..nmsg {
            let nchunks = match rng.below(5) {
                0 => 1,
                1 => 2,
                _ => rng.usize(2, 9),
            };
            let mut len = if nchunks == 1 { rng.usize(0, cs) } else { cs * (nchunks - 1) + rng.usize(1, cs) };
            ts = ts.wrapping_add(rng.below(50) as u32);
            let csid_j = pool[j];
            let mut steady_shape: Option<(u8, u32)> = None;
            if steady {
                let e = clocks.entry(csid_j).or_insert_with(|| (ts, *rng.pick(&[0u32, 20, 33, 40, 1000, 0xFFFFFF, 0x1000000]), *rng.pick(&[8u8, 9, 18, 20]), *rng.pick(&[1u32, 1, 2]), len));
                e.0 = e.0.wrapping_add(e.1);
                if rng.chance(5, 6) {
                    // same shape as before on this chunk stream (otherwise only the clock is kept)
                    len = e.4;
                    steady_shape = Some((e.2, e.3));
                }
            }
            let ts_msg = if steady { clocks[&csid_j].0 } else { ts };
            let mut data = vec![0u8; len];
            // tag every byte with its message so mixing is visible in the witness
            for (i, b) in data.iter_mut().enumerate() {
                *b = ((base + j) as u8) << 4 | (i as u8 & 0x0F);
            }
            let m = Msg {
                type_id: steady_shape.map(|x| x.0).unwrap_or_else(|| *rng.pick(&[8u8, 9, 18, 20])),
                // message stream ids sometimes equal to a chunk stream id of the group
                msid: steady_shape.map(|x| x.1).unwrap_or_else(|| if rng.chance(1, 5) { pool[rng.usize(0, 5)] } else { *rng.pick(&[1u32, 1, 2]) }),
                ts: ts_msg,
                data,
            };
            // now and then a protocol-control message (Abort, type 2) whose number is one of the
            // chunk stream ids of the group: to the deserializer it is a message like any other -
            // the sender goes on sending the chunks of the message it names, and every message is
            // delivered intact
            let mut m = m;
            if steady_shape.is_none() && rng.chance(1, 12) {
                m.type_id = 2;
                m.msid = 0;
                m.data = pool[rng.usize(0, nmsg.min(6) - 1)].to_be_bytes().to_vec();
            }
            let csid = pool[j];
            let ts = ts_msg;
            let nonneg = enc.prev_info(csid).map(|p| ts.wrapping_sub(p.0) < 0x8000_0000).unwrap_or(false);
            let c: Choice = {
                let mut c = enc.random_choice(rng, csid, &m, nonneg, false);
                c.form = CsidForm::Min;
                c
            };
            let mut chunks = enc.encode(&m, &c);
            // a sender may repeat the full header on continuation chunks instead of using type 3
            // (the library's own serializer does so for forced-uncompressed messages)
            if c.fmt == 0 && chunks.len() > 1 && rng.chance(1, 5) {
                let first_payload = m.data.len().min(cs);
                let hdr: Vec<u8> = chunks[0][..chunks[0].len() - first_payload].to_vec();
                let bh = if csid <= 63 { 1 } else if csid <= 319 { 2 } else { 3 };
                let ext = if m.ts >= 0xFFFFFF { 4 } else { 0 };
                for ch in chunks.iter_mut().skip(1) {
                    let payload = ch[bh + ext..].to_vec();
                    let mut n = hdr.clone();
                    n.extend_from_slice(&payload);
                    *ch = n;
                }
            }
            group.push(chunks);
            msgs.push(m);
            csids_all.push(csid);
        }
        // schedule the group's chunks preserving each message's own order
        let mut next = vec![0usize; nmsg];
        let remaining = |next: &Vec<usize>, group: &Vec<Vec<Vec<u8>>>| (0..nmsg).filter(|j| next[*j] < group[*j].len()).collect::<Vec<_>>();
        match schedule {
            "no-overlap" => {
                for j in 0..nmsg {
                    for c in group[j].iter() {
                        wire_chunks.push((base + j, c.clone()));
                    }
                }
            }
            "audio-inside-video" => {
                // message 0 is the large frame; the others are inserted whole between its chunks
                let mut others: Vec<usize> = (1..nmsg).collect();
                for (ci, c) in group[0].iter().enumerate() {
                    wire_chunks.push((base, c.clone()));
                    if ci + 1 < group[0].len() && !others.is_empty() && rng.coin() {
                        let j = others.remove(0);
                        for c in group[j].iter() {
                            wire_chunks.push((base + j, c.clone()));
                        }
                    }
                }
                for j in others {
                    for c in group[j].iter() {
                        wire_chunks.push((base + j, c.clone()));
                    }
                }
            }
            "round-robin" => loop {
                let r = remaining(&next, &group);
                if r.is_empty() {
                    break;
                }
                for j in r {
                    wire_chunks.push((base + j, group[j][next[j]].clone()));
                    next[j] += 1;
                }
            },
            "pairwise" => {
                let mut j = 0;
                while j < nmsg {
                    let pair: Vec<usize> = if j + 1 < nmsg { vec![j, j + 1] } else { vec![j] };
                    loop {
                        let r: Vec<usize> = pair.iter().cloned().filter(|x| next[*x] < group[*x].len()).collect();
                        if r.is_empty() {
                            break;
                        }
                        let x = *rng.pick(&r);
                        wire_chunks.push((base + x, group[x][next[x]].clone()));
                        next[x] += 1;
                    }
                    j += 2;
                }
            }
            _ => loop {
                let r = remaining(&next, &group);
                if r.is_empty() {
                    break;
                }
                let j = *rng.pick(&r);
                wire_chunks.push((base + j, group[j][next[j]].clone()));
                next[j] += 1;
            },
        }
    }
    Hist { wire_chunks, msgs, csids: csids_all, schedule, cs }
}

/// Interleaving with in-band chunk-size changes: a SetChunkSize message (chunk stream 2) may
/// arrive between two chunks of a message on another chunk stream; the sender cuts every later
/// chunk - also of messages already in flight - at the new size.
fn gen_hist_scs(rng: &mut Rng) -> Hist {
    let mut enc = Encoder::new();
    let cs0 = *rng.pick(&[1usize, 2, 5, 16, 128, 128, 200]);
    let mut cur = cs0;
    let mut pool: Vec<u32> = Vec::new();
    while pool.len() < 5 {
        let c = super::foreign::pick_csid(rng);
        if c != 2 && !pool.contains(&c) {
            pool.push(c);
        }
    }
    struct Flight {
        idx: usize,
        hdr: Vec<u8>,
        cont: Vec<u8>,
        data: Vec<u8>,
        pos: usize,
        started: bool,
    }
    let mut wire_chunks: Vec<(usize, Vec<u8>)> = Vec::new();
    let mut msgs: Vec<Msg> = Vec::new();
    let mut csids_all: Vec<u32> = Vec::new();
    let mut ts = rng.u32_boundary();
    let mut changes = 0;
    for _ in 0..rng.usize(1, 3) {
        let nmsg = rng.usize(1, 4);
        let mut flights: Vec<Flight> = Vec::new();
        for j in 0..nmsg {
            let len = match rng.below(6) {
                0 => rng.usize(0, 8),
                1 => cur * rng.usize(1, 4),
                2 => cur * rng.usize(1, 4) + 1,
                3 => rng.usize(100, 400),
                _ => rng.usize(0, 1200),
            }
            .min(3000);
            ts = ts.wrapping_add(rng.below(50) as u32);
            let idx = msgs.len();
            let mut data = vec![0u8; len];
            for (i, b) in data.iter_mut().enumerate() {
                *b = (idx as u8) << 4 | (i as u8 & 0x0F);
            }
            let m = Msg { type_id: *rng.pick(&[8u8, 9, 18, 20]), msid: *rng.pick(&[1u32, 1, 2]), ts, data };
            let csid = pool[j];
            let nonneg = enc.prev_info(csid).map(|p| ts.wrapping_sub(p.0) < 0x8000_0000).unwrap_or(false);
            let mut c: Choice = enc.random_choice(rng, csid, &m, nonneg, false);
            c.form = CsidForm::Min;
            // the message header, independent of how the payload will be cut
            let saved = enc.chunk_size;
            enc.chunk_size = 0x0100_0000;
            let one = enc.encode(&m, &c).remove(0);
            enc.chunk_size = saved;
            let hdr = one[..one.len() - m.data.len()].to_vec();
            let field = enc.prev_info(csid).unwrap().1;
            let mut cont = Vec::new();
            chunk::basic_header(3, csid, c.form, &mut cont);
            if field >= 0xFFFFFF {
                cont.extend_from_slice(&field.to_be_bytes());
            }
            let cont = if c.fmt == 0 && rng.chance(1, 5) { hdr.clone() } else { cont };
            flights.push(Flight { idx, hdr, cont, data: m.data.clone(), pos: 0, started: false });
            msgs.push(m);
            csids_all.push(csid);
        }
        loop {
            let open: Vec<usize> = (0..flights.len()).filter(|j| !flights[*j].started || flights[*j].pos < flights[*j].data.len()).collect();
            if open.is_empty() {
                break;
            }
            if changes < 5 && rng.chance(1, 4) {
                // the new size: below, at and above the lengths of the messages in flight
                let new = *rng.pick(&[1u32, 2, 5, 16, 100, 128, 200, 300, 1000, 4096, 65536, 0x7FFF_FFFF]);
                let m = chunk::set_chunk_size_msg(new, 0);
                enc.chunk_size = cur;
                let c = Choice { csid: 2, form: CsidForm::Min, fmt: 0 };
                let idx = msgs.len();
                for ch in enc.encode(&m, &c) {
                    wire_chunks.push((idx, ch));
                }
                msgs.push(m);
                csids_all.push(2);
                cur = new as usize;
                changes += 1;
                continue;
            }
            let j = *rng.pick(&open);
            let f = &mut flights[j];
            let take = (f.data.len() - f.pos).min(cur);
            let mut ch = if f.started { f.cont.clone() } else { f.hdr.clone() };
            ch.extend_from_slice(&f.data[f.pos..f.pos + take]);
            f.pos += take;
            f.started = true;
            wire_chunks.push((f.idx, ch));
        }
    }
    Hist { wire_chunks, msgs, csids: csids_all, schedule: "with-chunk-size-changes", cs: cs0 }
}

/// Three 9 MiB messages in flight at once (27 MiB of unfinished data, more than one maximum-size
/// message), chunk size 1 MiB, chunks in round-robin order.
fn gen_hist_huge(rng: &mut Rng) -> Hist {
    let mut enc = Encoder::new();
    let cs = 1usize << 20;
    enc.chunk_size = cs;
    let csids = [3u32, 64, 320];
    let mut groups: Vec<Vec<Vec<u8>>> = Vec::new();
    let mut msgs = Vec::new();
    for (j, csid) in csids.iter().enumerate() {
        let len = 9 * (1usize << 20) + j * 77;
        let a = rng.next();
        let data: Vec<u8> = (0..len).map(|i| ((i as u64).wrapping_mul(0x9E37_79B9).wrapping_add(a) >> 13) as u8).collect();
        let m = Msg { type_id: 9, msid: 1, ts: 1000 + j as u32, data };
        let c = Choice { csid: *csid, form: CsidForm::Min, fmt: 0 };
        groups.push(enc.encode(&m, &c));
        msgs.push(m);
    }
    let mut wire_chunks = Vec::new();
    let most = groups.iter().map(|g| g.len()).max().unwrap();
    for i in 0..most {
        for (j, g) in groups.iter().enumerate() {
            if i < g.len() {
                wire_chunks.push((j, g[i].clone()));
            }
        }
    }
    Hist { wire_chunks, msgs, csids: csids.to_vec(), schedule: "three-9-MiB-messages-round-robin", cs }
}

/// a message in flight on one chunk stream while very many chunks and very many complete messages
/// pass on others: first a whole message of 4,097-70,000 chunks, then 5,000 one-chunk messages
/// on four further chunk streams, each between two chunks of the waiting message
fn gen_hist_idle(rng: &mut Rng) -> Hist {
    let mut enc = Encoder::new();
    let cs = *rng.pick(&[1usize, 16, 16, 128]);
    enc.chunk_size = cs;
    let tagged = |len: usize, a: u64| -> Vec<u8> { (0..len).map(|i| ((i as u64).wrapping_mul(0x9E37_79B9).wrapping_add(a) >> 13) as u8).collect() };
    let mut msgs: Vec<Msg> = Vec::new();
    let mut csids: Vec<u32> = Vec::new();
    let mut wire_chunks: Vec<(usize, Vec<u8>)> = Vec::new();
    let waiting_csid = *rng.pick(&[3u32, 64, 700]);
    let a = Msg { type_id: 9, msid: 1, ts: 10, data: tagged(2 * cs + 1 + rng.usize(0, cs - 1), rng.next()) };
    let ga = enc.encode(&a, &Choice { csid: waiting_csid, form: CsidForm::Min, fmt: 0 });
    assert!(ga.len() == 3, "harness: waiting message should have three chunks");
    msgs.push(a);
    csids.push(waiting_csid);
    wire_chunks.push((0, ga[0].clone()));
    let n = if cs <= 16 { *rng.pick(&[4_097usize, 5_000, 70_000]) } else { *rng.pick(&[4_097usize, 5_000, 8_193]) };
    let b = Msg { type_id: 8, msid: 1, ts: 20, data: tagged(n * cs - rng.usize(0, cs - 1), rng.next()) };
    let gb = enc.encode(&b, &Choice { csid: 4, form: CsidForm::Min, fmt: 0 });
    assert!(gb.len() == n, "harness: long message should have the chosen number of chunks");
    msgs.push(b);
    csids.push(4);
    for c in gb {
        wire_chunks.push((1, c));
    }
    wire_chunks.push((0, ga[1].clone()));
    for i in 0..5_000usize {
        let csid = 5 + (i % 4) as u32;
        let m = Msg { type_id: 8, msid: 1, ts: 30 + i as u32, data: vec![i as u8; 1 + (i % 3).min(cs - 1)] };
        let g = enc.encode(&m, &Choice { csid, form: CsidForm::Min, fmt: 0 });
        let idx = msgs.len();
        msgs.push(m);
        csids.push(csid);
        for c in g {
            wire_chunks.push((idx, c));
        }
    }
    wire_chunks.push((0, ga[2].clone()));
    Hist { wire_chunks, msgs, csids, schedule: "one-message-waiting-while-thousands-of-chunks-pass", cs }
}

fn apply_scs(d: &mut ChunkDeserializer, m: &Msg) {
    if m.type_id == 1 && m.data.len() >= 4 {
        let v = u32::from_be_bytes([m.data[0], m.data[1], m.data[2], m.data[3]]) & 0x7FFF_FFFF;
        let _ = d.set_max_chunk_size(v as usize);
    }
}

pub fn run_scs_history(rng: &mut Rng, out: &mut Out) {
    let h = gen_hist_scs(rng);
    run_hist(h, rng, out);
}

fn run_hist(h: Hist, rng: &mut Rng, out: &mut Out) {
    {
        out.eval(1);
        let cs = h.cs;
        // expected deliveries by independent per-csid reassembly, and the first overlap point
        let mut rd = Decoder::new(false);
        rd.chunk_size = cs;
        let mut expected: Vec<(Msg, usize)> = Vec::new(); // (message, wire offset after its last chunk)
        let mut off = 0usize;
        let mut first_overlap: Option<usize> = None;
        let mut partial: Vec<usize> = Vec::new(); // message indices partially assembled
        let mut seen_chunks = vec![0usize; h.msgs.len()];
        let mut total_chunks: Vec<usize> = vec![0usize; h.msgs.len()];
        for c in h.wire_chunks.iter() {
            total_chunks[c.0] += 1;
        }
        for (mi, c) in h.wire_chunks.iter() {
            if first_overlap.is_none() && partial.iter().any(|p| h.csids[*p] != h.csids[*mi]) {
                first_overlap = Some(off);
            }
            let ms = rd.feed(c).unwrap_or_else(|e| panic!("harness: reference decoder rejects interleaved reference stream: {}", e));
            off += c.len();
            seen_chunks[*mi] += 1;
            if seen_chunks[*mi] == total_chunks[*mi] {
                partial.retain(|p| p != mi);
            } else if !partial.contains(mi) {
                partial.push(*mi);
            }
            for m in ms {
                expected.push((m, off));
            }
        }
        assert!(rd.idle() && expected.len() == h.msgs.len(), "harness: reference reassembly incomplete");
        let wire: Vec<u8> = h.wire_chunks.iter().flat_map(|c| c.1.iter().cloned()).collect();
        let cut = first_overlap.unwrap_or(wire.len());
        let before: Vec<Msg> = expected.iter().filter(|e| e.1 <= cut).map(|e| e.0.clone()).collect();
        let all: Vec<Msg> = expected.iter().map(|e| e.0.clone()).collect();
        out.count(&format!("schedule_{}", h.schedule), 1);
        out.count(if first_overlap.is_some() { "histories_with_overlap" } else { "histories_without_overlap" }, 1);
        out.count("interleaved_chunks", rd.interleaved_chunks);
        let witness = || {
            json!({"schedule": h.schedule, "chunk_size": cs,
                "chunks": h.wire_chunks.len(), "message_count": h.msgs.len(),
                // (long histories: the first 300 chunks and 60 messages; the case number and seed rebuild the rest)
                "chunk_order": h.wire_chunks.iter().take(300).map(|c| json!({"msg": c.0, "csid": h.csids[c.0], "bytes": c.1.len()})).collect::<Vec<_>>(),
                "messages": h.msgs.iter().take(60).map(|m| m.brief()).collect::<Vec<_>>(), "first_overlap_offset": first_overlap, "wire": crate::rng::hex_short(&wire, 300)})
        };
        out.sample(|| witness());
        out.shape(mix(mix(h.msgs.len() as u64, crate::rng::fnv(h.schedule.as_bytes())), mix(first_overlap.map(|x| (x as u64).min(300)).unwrap_or(9999), h.wire_chunks.len() as u64)));

        for round in 0..3 {
            let kind = if round == 0 { 0 } else { 1 + rng.below(5) as u32 };
            // phase 1: everything before the first overlap point
            let r = lib_call(out, "ChunkDeserializer::get_next_message", &witness, || {
                let mut d = ChunkDeserializer::new();
                let _ = d.set_max_chunk_size(cs);
                let mut got: Vec<Msg> = Vec::new();
                let mut err1 = None;
                let mut p = 0;
                for n in partition(rng, cut, kind) {
                    if let Err(e) = lib_feed(&mut d, &wire[p..p + n], &mut got, |d, m| apply_scs(d, m)) {
                        err1 = Some(e);
                        break;
                    }
                    p += n;
                }
                let n1 = got.len();
                let mut err2 = None;
                if err1.is_none() {
                    let mut p = cut;
                    for n in partition(rng, wire.len() - cut, kind) {
                        if let Err(e) = lib_feed(&mut d, &wire[p..p + n], &mut got, |d, m| apply_scs(d, m)) {
                            err2 = Some(e);
                            break;
                        }
                        p += n;
                    }
                }
                (got, n1, err1, err2)
            });
            let (got, n1, err1, err2) = match r {
                Some(x) => x,
                None => {
                    // a panic: attribute to the known finding only when it happened after the overlap;
                    // the panic signature itself has already been recorded by lib_call
                    return;
                }
            };
            if let Some(e) = err1 {
                out.violation("error-before-any-csid-overlap", json!({"error": e, "history": witness()}));
                return;
            }
            if let Some(class) = chunk::first_difference_class(&got[..n1], &before) {
                out.violation(
                    &format!("divergence-before-any-csid-overlap:{}", class),
                    json!({"difference": chunk::first_difference(&got[..n1], &before), "history": witness()}),
                );
                return;
            }
            out.count("prefix_before_overlap_exact", 1);
            let diverged = err2.is_some() || got != all;
            if diverged {
                if first_overlap.is_none() {
                    out.violation("divergence-without-any-csid-overlap", json!({"error": err2, "history": witness()}));
                    return;
                }
                out.count("overlapping_histories_diverged", 1);
                out.violation(
                    KNOWN_SIG,
                    json!({"error": err2, "difference": chunk::first_difference(&got, &all), "history": witness()}),
                );
                return;
            } else if first_overlap.is_some() {
                out.count("overlapping_histories_reassembled_exactly", 1);
            }
        }
        out.count("histories_exact", 1);
    }
}

impl Check for C16 {
    fn id(&self) -> &'static str {
        "C16"
    }
    fn plan(&self, tier: Tier) -> Plan {
        let mut p = Plan::new(tier.pick(2_000_000, 60_000_000), tier.pick(30.0, 360.0));
        p.mandatory = 4;
        p
    }
    fn selftest(&self) -> Result<(), String> {
        chunk::selftest()
    }
    fn run_case(&self, _tier: Tier, k: u64, rng: &mut Rng, out: &mut Out) {
        let h = if k == 0 {
            gen_hist_huge(rng)
        } else if k <= 3 || rng.chance(1, 20_000) {
            gen_hist_idle(rng)
        } else if rng.chance(1, 4) {
            gen_hist_scs(rng)
        } else {
            gen_hist(rng)
        };
        run_hist(h, rng, out);
    }
    fn rule(&self) -> String {
        "1-3 rounds of 2-6 messages (1-9 chunks each, chunk sizes {1,2,5,16,128,200}) on distinct chunk stream ids of all three csid forms, encoded by the independent encoder and interleaved by a scheduler that keeps each message's chunks in order: no-overlap, audio-inside-video, round-robin, pairwise, random. Case 0: three 9 MiB messages in flight at once at chunk size 1 MiB, round-robin (more unfinished data than one maximum-size message). Cases 1-3 (and one history in 20,000): a three-chunk message waits on its chunk stream while a whole message of 4,097-70,000 chunks and then 5,000 one-chunk messages on four further chunk streams pass between its chunks. A quarter of the histories instead interleave 1-4 messages (0-3000 bytes) per round with up to five in-band SetChunkSize messages on chunk stream 2 placed between chunks of the messages in flight (new sizes {1, 2, 5, 16, 100, 128, 200, 300, 1000, 4096, 65536, 2^31-1}: below, at and above the lengths in flight); every later chunk, also of messages already begun, is cut at the new size, and the deserializer is told the new size when the SetChunkSize message is delivered, as the sessions do. In a fifth of the multi-chunk messages that start with a type-0 header the continuation chunks repeat that full header instead of using type 3. One history in 400 first opens 1,106 chunk streams with one small message each. One message in twelve is an Abort (type 2) naming a chunk stream id of its group - to the deserializer a message like any other, since the sender goes on with the message it names. Payload bytes are tagged with their message index. Expected deliveries (each message when its last chunk arrives) come from independent per-csid reassembly. The stream is fed in two phases around the first overlap point (first chunk arriving on a csid while another csid has a partial message), each in 3 partitions. distinct = (messages, schedule, first-overlap offset bucket, chunk count).".to_string()
    }
    fn assumptions(&self) -> Vec<String> {
        vec![
            format!("no known finding is open for C16 (F10 was repaired); a divergence that begins at or after the first overlap point is reported under signature '{}', a divergence before it under its own signature", KNOWN_SIG),
        ]
    }
    fn required_counters(&self, _tier: Tier) -> Vec<String> {
        vec![
            "histories_with_overlap".into(),
            "histories_without_overlap".into(),
            "prefix_before_overlap_exact".into(),
            "overlapping_histories_reassembled_exactly".into(),
            "schedule_no-overlap".into(),
            "schedule_audio-inside-video".into(),
            "schedule_round-robin".into(),
            "schedule_random".into(),
            "schedule_pairwise".into(),
            "schedule_with-chunk-size-changes".into(),
            "schedule_three-9-MiB-messages-round-robin".into(),
        ]
    }
}
