//! C05 - handshake completes under any fragmentation and hands back trailing bytes intact.
//! Real client Handshake <-> real server Handshake (and each against an independent
//! original-handshake peer) over two simulated byte pipes with a random scheduler; a
//! byte-accounting monitor per side.

use super::c11::{install_fill, FillGuard};
use crate::fw::{guarded, panic_signature, Check, Out, Plan, Tier};
use crate::refs::sha::{self, PACKET};
use crate::rng::{mix, Rng};
use rml_rtmp::handshake::{Handshake, HandshakeProcessResult, PeerType};
use serde_json::{json, Value};
use std::collections::VecDeque;

pub struct C05;

const HS_LEN: usize = 1 + 2 * PACKET; // 3073

/// An independent implementation of the original (digest-less) RTMP handshake, either role.
struct OriginalPeer {
    is_client: bool,
    own_p1: Vec<u8>,
    inbuf: Vec<u8>,
    stage: u8, // 0: need p0+p1, 1: need p2, 2: done
    sent_first: bool,
    got_p2: Option<Vec<u8>>,
    got_p1: Option<Vec<u8>>,
    /// RTMP spec 5.2.4: packet 2 = the peer's time, then time2 (when the peer's packet 1 was
    /// read), then the peer's random bytes.  Some(t): fill time2 in as the specification
    /// describes; None: echo packet 1 verbatim (what librtmp does)
    time2: Option<[u8; 4]>,
}

impl OriginalPeer {
    fn new(is_client: bool, rng: &mut Rng, zero_version: bool) -> OriginalPeer {
        let mut p1 = rng.bytes(PACKET);
        for b in p1[0..4].iter_mut() {
            *b = 0;
        }
        if zero_version {
            for b in p1[4..8].iter_mut() {
                *b = 0;
            }
        }
        // one peer in five sends a packet 1 that *almost* carries a Flash-Player-9 digest: built with
        // a valid digest, then the same bit made wrong in two different 32-bit words of it (no valid
        // digest, so it is a digest-less packet 1 like any other and must be echoed)
        if rng.chance(1, 5) {
            let role = if is_client { sha::Role::Client } else { sha::Role::Server };
            let scheme = if rng.coin() { sha::Scheme::At8 } else { sha::Scheme::At772 };
            let filler = rng.bytes(PACKET);
            let mut built = sha::make_p1(role, scheme, &filler);
            let off = sha::digest_offset(&built, scheme);
            let (w1, w2) = (rng.usize(0, 7), rng.usize(0, 6));
            let w2 = if w2 >= w1 { w2 + 1 } else { w2 };
            let (byte, mask) = (rng.usize(0, 3), 1u8 << rng.below(8));
            built[off + 4 * w1 + byte] ^= mask;
            built[off + 4 * w2 + byte] ^= mask;
            if sha::find_digest(&built, &sha::role_p1_key(role)).is_empty() {
                p1 = built;
            }
        }
        let time2 = if rng.coin() { Some(*rng.pick(&[[0u8, 0, 0, 1], [0, 0, 0, 0], [0x12, 0x34, 0x56, 0x78], [0xFF, 0xFF, 0xFF, 0xFF]])) } else { None };
        OriginalPeer { is_client, own_p1: p1, inbuf: Vec::new(), stage: 0, sent_first: false, got_p2: None, got_p1: None, time2 }
    }
    fn open(&mut self) -> Vec<u8> {
        if self.sent_first {
            return vec![];
        }
        self.sent_first = true;
        let mut v = vec![3u8];
        v.extend_from_slice(&self.own_p1);
        v
    }
    /// returns (bytes to send, completed now, leftover)
    fn process(&mut self, data: &[u8]) -> Result<(Vec<u8>, bool, Vec<u8>), String> {
        self.inbuf.extend_from_slice(data);
        let mut resp = Vec::new();
        if self.stage == 0 && self.inbuf.len() >= 1 + PACKET {
            if self.inbuf[0] != 3 {
                return Err("peer sent a version byte other than 3".into());
            }
            let p1: Vec<u8> = self.inbuf[1..1 + PACKET].to_vec();
            self.inbuf.drain(..1 + PACKET);
            if !self.is_client {
                resp.extend(self.open());
            }
            // packet 2 = echo of the peer's packet 1, with time2 filled in by peers that do so
            let mut p2 = p1.clone();
            if let Some(t) = self.time2 {
                p2[4..8].copy_from_slice(&t);
            }
            resp.extend_from_slice(&p2);
            self.got_p1 = Some(p1);
            self.stage = 1;
        }
        if self.stage == 1 && self.inbuf.len() >= PACKET {
            let p2: Vec<u8> = self.inbuf[..PACKET].to_vec();
            self.inbuf.drain(..PACKET);
            self.got_p2 = Some(p2);
            self.stage = 2;
            let rest = std::mem::take(&mut self.inbuf);
            return Ok((resp, true, rest));
        }
        Ok((resp, false, Vec::new()))
    }
}

/// Packet 2 echoes packet 1: the time field and the random bytes must come back unchanged; the
/// time2 field (bytes 4..8) is the echoing side's to fill in (RTMP spec 5.2.4), so it is only counted.
fn echo_of(p2: Option<&[u8]>, p1: &[u8], out: &mut Out) -> bool {
    match p2 {
        Some(p2) if p2.len() == p1.len() && p2[..4] == p1[..4] && p2[8..] == p1[8..] => {
            if p2[4..8] != p1[4..8] {
                out.count("library_filled_time2_in_its_packet_2", 1);
            }
            true
        }
        _ => false,
    }
}

enum Party {
    Lib(Handshake),
    Orig(OriginalPeer),
}

struct Side {
    name: &'static str,
    party: Party,
    completed: bool,
    completed_at_received: usize,
    received: usize,
    emitted_hs: Vec<u8>,
    trailing: Vec<u8>,
    trailing_queued: bool,
    app_received: Vec<u8>,
    calls: usize,
}

fn tagged(tag: u8, n: usize) -> Vec<u8> {
    // a counter stream: byte i = f(tag, i): loss, duplication and reordering are visible per byte
    (0..n).map(|i| tag ^ ((i as u32).wrapping_mul(2654435761) >> 24) as u8 ^ (i as u8)).collect()
}

fn deliver(side: &mut Side, piece: &[u8], out_pipe: &mut VecDeque<u8>, log: &mut Vec<Value>) -> Result<(), (String, Value)> {
    side.received += piece.len();
    if side.completed {
        side.app_received.extend_from_slice(piece);
        return Ok(());
    }
    side.calls += 1;
    let (resp, done, rest) = match &mut side.party {
        Party::Lib(h) => {
            let r = guarded(|| h.process_bytes(piece));
            match r {
                Err((loc, msg)) => return Err((panic_signature(&loc, &msg), json!({"panic_at": loc, "message": msg}))),
                Ok(Err(e)) => return Err(("handshake-error".into(), json!({"side": side.name, "error": format!("{:?}", e), "received_so_far": side.received}))),
                Ok(Ok(HandshakeProcessResult::InProgress { response_bytes })) => (response_bytes, false, Vec::new()),
                Ok(Ok(HandshakeProcessResult::Completed { response_bytes, remaining_bytes })) => (response_bytes, true, remaining_bytes),
            }
        }
        Party::Orig(o) => match o.process(piece) {
            Ok(x) => x,
            Err(e) => return Err(("original-peer-rejects-library-output".into(), json!({"side": side.name, "error": e}))),
        },
    };
    if log.len() < 64 {
        log.push(json!({"to": side.name, "bytes": piece.len(), "received_total": side.received, "responded": resp.len(), "completed": done, "remaining": rest.len()}));
    }
    side.emitted_hs.extend_from_slice(&resp);
    out_pipe.extend(resp.iter());
    if done {
        side.completed = true;
        side.completed_at_received = side.received;
        side.app_received.extend_from_slice(&rest);
    } else if !rest.is_empty() {
        return Err(("remaining-bytes-without-completion".into(), json!({"side": side.name})));
    }
    Ok(())
}

fn run_one(rng: &mut Rng, out: &mut Out) {
    out.eval(1);
    let peer_kind = rng.below(5); // 0,1,2: lib<->lib ; 3: lib client <-> original server ; 4: original client <-> lib server
    let hooked = rng.coin();
    let fill_seed = rng.next();
    let _g = FillGuard;
    if hooked {
        std::mem::forget(install_fill(fill_seed, None));
    }
    let zero_version = rng.coin();
    let client_party = if peer_kind == 4 { Party::Orig(OriginalPeer::new(true, rng, zero_version)) } else { Party::Lib(Handshake::new(PeerType::Client)) };
    let server_party = if peer_kind == 3 { Party::Orig(OriginalPeer::new(false, rng, zero_version)) } else { Party::Lib(Handshake::new(PeerType::Server)) };
    let tlen = |rng: &mut Rng| match rng.below(6) {
        // one side in 60 follows its handshake with so much data that a reader which takes
        // everything available holds more than 65,535 (or 131,071) bytes at once
        _ if rng.chance(1, 60) => match rng.below(4) {
            0 => rng.usize(129_500, 132_700),
            1 => rng.usize(190_000, 200_000),
            _ => rng.usize(62_000, 67_100),
        },
        0 => 0,
        1 => 1,
        2 => rng.usize(1, 40),
        _ => rng.usize(1, 4096),
    };
    let (tc, ts) = (tlen(rng), tlen(rng));
    let mut c = Side { name: "client", party: client_party, completed: false, completed_at_received: 0, received: 0, emitted_hs: vec![], trailing: tagged(0xC1, tc), trailing_queued: false, app_received: vec![], calls: 0 };
    let mut s = Side { name: "server", party: server_party, completed: false, completed_at_received: 0, received: 0, emitted_hs: vec![], trailing: tagged(0x5E, ts), trailing_queued: false, app_received: vec![], calls: 0 };
    let mut c2s: VecDeque<u8> = VecDeque::new();
    let mut s2c: VecDeque<u8> = VecDeque::new();
    let mut log: Vec<Value> = Vec::new();

    // who opens
    let opening = rng.below(4);
    let mut open_side = |side: &mut Side, pipe: &mut VecDeque<u8>, via_process: bool| -> Result<(), (String, Value)> {
        let bytes = match &mut side.party {
            Party::Lib(h) => {
                if via_process {
                    match guarded(|| h.process_bytes(&[])) {
                        Ok(Ok(HandshakeProcessResult::InProgress { response_bytes })) => response_bytes,
                        Ok(Ok(_)) => return Err(("completed-on-empty-input".into(), json!({"side": side.name}))),
                        Ok(Err(e)) => return Err(("handshake-error".into(), json!({"side": side.name, "error": format!("{:?}", e), "on": "process_bytes(&[]) as opening move"}))),
                        Err((loc, msg)) => return Err((panic_signature(&loc, &msg), json!({"panic_at": loc, "message": msg}))),
                    }
                } else {
                    match guarded(|| h.generate_outbound_p0_and_p1()) {
                        Ok(Ok(b)) => b,
                        Ok(Err(e)) => return Err(("handshake-error".into(), json!({"side": side.name, "error": format!("{:?}", e)}))),
                        Err((loc, msg)) => return Err((panic_signature(&loc, &msg), json!({"panic_at": loc, "message": msg}))),
                    }
                }
            }
            Party::Orig(o) => o.open(),
        };
        side.emitted_hs.extend_from_slice(&bytes);
        pipe.extend(bytes.iter());
        Ok(())
    };
    let opening_name = ["client generates", "client and server both generate", "client opens via process_bytes(&[])", "client generates, server pre-generates via process_bytes(&[])"][opening as usize];
    let r = (|| -> Result<(), (String, Value)> {
        match opening {
            0 => open_side(&mut c, &mut c2s, false)?,
            1 => {
                open_side(&mut c, &mut c2s, false)?;
                open_side(&mut s, &mut s2c, false)?;
            }
            2 => open_side(&mut c, &mut c2s, true)?,
            _ => {
                open_side(&mut c, &mut c2s, false)?;
                open_side(&mut s, &mut s2c, true)?;
            }
        }
        Ok(())
    })();
    let witness = |log: &Vec<Value>, c: &Side, s: &Side| {
        let peers = ["library<->library", "library<->library", "library<->library", "library client <-> original-handshake server", "original-handshake client <-> library server"][peer_kind as usize];
        json!({"peers": peers,
            "opening": opening_name, "hooked_fill_seed": if hooked { Some(fill_seed) } else { None }, "client_trailing": c.trailing.len(), "server_trailing": s.trailing.len(), "deliveries": log})
    };
    if let Err((sig, d)) = r {
        out.violation(&sig, json!({"detail": d, "history": witness(&log, &c, &s)}));
        return;
    }
    let style = rng.below(6);
    // one case in eight is preceded, on the same thread, by a handshake that is abandoned half-way
    // (the peer vanished inside packet 1): nothing of it may reach the handshakes that follow
    if rng.chance(1, 8) {
        let _ = guarded(|| {
            let mut h = Handshake::new(if rng.coin() { PeerType::Client } else { PeerType::Server });
            let mut junk = vec![3u8];
            junk.extend(rng.bytes_in(1, 1400));
            let _ = h.process_bytes(&junk);
            drop(h);
        });
        out.count("cases_preceded_by_an_abandoned_handshake", 1);
    }
    // style 5: a reader with a fixed buffer size, among them exactly one packet's worth
    let fixed_piece = *rng.pick(&[1536usize, 1536, 1537, 1535, 768, 3072, 1024, 512, 3073]);
    let mut splits_near_boundaries = 0u64;
    let mut steps = 0;
    loop {
        steps += 1;
        if steps > 200_000 + tc + ts {
            out.violation("handshake-driver-did-not-terminate", witness(&log, &c, &s));
            return;
        }
        // queue trailing data once a side has emitted its three packets
        for (side, pipe) in [(&mut c, &mut c2s), (&mut s, &mut s2c)] {
            if !side.trailing_queued && side.emitted_hs.len() >= HS_LEN {
                side.trailing_queued = true;
                pipe.extend(side.trailing.iter());
            }
        }
        let can_c2s = !c2s.is_empty();
        let can_s2c = !s2c.is_empty();
        if !can_c2s && !can_s2c {
            break;
        }
        let to_server = if can_c2s && can_s2c { rng.coin() } else { can_c2s };
        let (pipe, dst, back) = if to_server { (&mut c2s, &mut s, &mut s2c) } else { (&mut s2c, &mut c, &mut c2s) };
        let avail = pipe.len();
        // piece size: style-dependent, with targeted cuts at the packet boundaries +-1
        let to_boundary = |received: usize| -> Vec<usize> {
            let mut v = Vec::new();
            for b in [1usize, 1 + PACKET, HS_LEN] {
                for d in [-1i64, 0, 1] {
                    let t = b as i64 + d;
                    if t > received as i64 {
                        v.push((t - received as i64) as usize);
                    }
                }
            }
            v
        };
        let mut n = match style {
            0 => 1,
            1 => avail,
            2 => rng.usize(1, 4000),
            5 => fixed_piece,
            3 => {
                let t = to_boundary(dst.received);
                if !t.is_empty() && rng.chance(3, 4) {
                    *rng.pick(&t)
                } else {
                    rng.usize(1, 2000)
                }
            }
            _ => match rng.below(4) {
                0 => 1,
                1 => rng.usize(1, 20),
                2 => avail,
                _ => rng.usize(1, 4000),
            },
        };
        if rng.chance(1, 50) {
            n = 0; // an empty delivery
        }
        // what follows a completed handshake goes to the application: piece sizes no longer matter
        if dst.completed && avail > 8192 {
            n = n.max(8192);
        }
        let n = n.min(avail);
        let before = dst.received;
        for b in [1usize, 1 + PACKET, HS_LEN] {
            let after = before + n;
            if (after as i64 - b as i64).abs() <= 1 && after != before {
                splits_near_boundaries += 1;
            }
        }
        let piece: Vec<u8> = pipe.drain(..n).collect();
        let was_completed = dst.completed;
        if let Err((sig, d)) = deliver(dst, &piece, back, &mut log) {
            out.violation(&sig, json!({"detail": d, "history": witness(&log, &c, &s)}));
            return;
        }
        // monitors at the call boundary
        if !was_completed {
            if dst.completed && dst.received < HS_LEN {
                out.violation("completion-before-3073-bytes-received", json!({"side": dst.name, "received": dst.received, "history": witness(&log, &c, &s)}));
                return;
            }
            if !dst.completed && dst.received >= HS_LEN {
                out.violation("not-complete-although-all-3073-bytes-received", json!({"side": dst.name, "received": dst.received, "history": witness(&log, &c, &s)}));
                return;
            }
        }
        if dst.emitted_hs.len() > HS_LEN {
            out.violation("side-emitted-more-than-3073-handshake-bytes", json!({"side": dst.name, "emitted": dst.emitted_hs.len(), "history": witness(&log, &c, &s)}));
            return;
        }
    }
    // end-of-history monitors
    for (side, peer) in [(&c, &s), (&s, &c)] {
        if !side.completed {
            out.violation("never-completed", json!({"side": side.name, "received": side.received, "emitted": side.emitted_hs.len(), "history": witness(&log, &c, &s)}));
            return;
        }
        if side.emitted_hs.len() != HS_LEN || side.emitted_hs[0] != 3 {
            out.violation("emitted-stream-is-not-version-3-plus-two-packets", json!({"side": side.name, "emitted": side.emitted_hs.len(), "first": side.emitted_hs.first(), "history": witness(&log, &c, &s)}));
            return;
        }
        if side.app_received != peer.trailing {
            let at = side.app_received.iter().zip(peer.trailing.iter()).position(|(a, b)| a != b);
            out.violation(
                "trailing-bytes-not-returned-exactly-once-in-order",
                json!({"side": side.name, "got": side.app_received.len(), "sent": peer.trailing.len(), "first_difference_at": at, "history": witness(&log, &c, &s)}),
            );
            return;
        }
    }
    // with a digest-less peer the library's packet 2 must be the echo of the peer's packet 1
    if let Party::Orig(o) = &c.party {
        if !echo_of(o.got_p2.as_deref(), &o.own_p1, out) {
            out.violation("p2-for-digestless-p1-is-not-an-echo", json!({"library_side": "server", "history": witness(&log, &c, &s)}));
            return;
        }
        out.count("echo_checked_against_original_client", 1);
    }
    if let Party::Orig(o) = &s.party {
        if !echo_of(o.got_p2.as_deref(), &o.own_p1, out) {
            out.violation("p2-for-digestless-p1-is-not-an-echo", json!({"library_side": "client", "history": witness(&log, &c, &s)}));
            return;
        }
        out.count("echo_checked_against_original_server", 1);
    }
    out.count("handshakes_completed", 1);
    out.count(&format!("opening_{}", opening), 1);
    out.count(&format!("peer_kind_{}", peer_kind), 1);
    out.count(&format!("scheduler_style_{}", style), 1);
    out.count("deliveries_ending_within_1_of_a_packet_boundary", splits_near_boundaries);
    out.count("process_bytes_calls", (c.calls + s.calls) as u64);
    if !s.trailing.is_empty() || !c.trailing.is_empty() {
        out.count("handshakes_with_trailing_data", 1);
    }
    out.shape(mix(mix(peer_kind, opening), mix(style, mix((tc.min(3) * 4 + ts.min(3)) as u64, splits_near_boundaries.min(12)))));
    out.sample(|| witness(&log, &c, &s));
}

impl Check for C05 {
    fn id(&self) -> &'static str {
        "C05"
    }
    fn plan(&self, tier: Tier) -> Plan {
        Plan::new(tier.pick(500_000, 12_000_000), tier.pick(30.0, 360.0))
    }
    fn selftest(&self) -> Result<(), String> {
        sha::selftest()
    }
    fn run_case(&self, _tier: Tier, _k: u64, rng: &mut Rng, out: &mut Out) {
        run_one(rng, out);
    }
    fn rule(&self) -> String {
        "one handshake per case: library client <-> library server (3/5), library client <-> independent original-handshake server (1/5), independent original-handshake client <-> library server (1/5); a fifth of the original-handshake peers send a packet 1 that almost carries a valid digest (the same bit wrong in two 32-bit words of it); the original-handshake peer echoes packet 1 verbatim or fills in time2 with {0, 1, 0x12345678, 0xFFFFFFFF} as RTMP spec 5.2.4 describes (half each); four opening orders (client generates; both generate; client opens via process_bytes(&[]); server pre-generates via process_bytes(&[])); each side appends 0-4096 (one side in 60: 62,000-67,100, 129,500-132,700 or 190,000-200,000) tagged trailing bytes right after its third packet; scheduler styles: byte-by-byte, everything available, random <= 4000, targeted (pieces ending exactly at, one before, one after stream offsets 1, 1537, 3073), mixed incl. empty deliveries, fixed read size from {512, 768, 1024, 1535, 1536, 1537, 3072, 3073}; half the runs with the library RNG, half with the seeded fill hook. distinct = (peer kind, opening, scheduler style, trailing-length classes, number of deliveries ending within 1 byte of a packet boundary).".to_string()
    }
    fn assumptions(&self) -> Vec<String> {
        vec![
            "after a side reports completion the driver routes later bytes to the application (the API returns HandshakeAlreadyCompleted), as the repository's examples do".to_string(),
            "completion is required in the very call that delivers the 3073rd byte".to_string(),
        ]
    }
    fn required_counters(&self, _tier: Tier) -> Vec<String> {
        let mut v = vec![
            "handshakes_completed".to_string(),
            "handshakes_with_trailing_data".into(),
            "deliveries_ending_within_1_of_a_packet_boundary".into(),
            "echo_checked_against_original_client".into(),
            "echo_checked_against_original_server".into(),
        ];
        for i in 0..4 {
            v.push(format!("opening_{}", i));
        }
        for i in 0..6 {
            v.push(format!("scheduler_style_{}", i));
        }
        v
    }
}
