//! Network simulator driving a real ClientSession against a real ServerSession: two FIFO byte
//! pipes, a random scheduler, scripted applications.  Shared by C02, C19 (follow-up scenarios)
//! and C18 (both-session histories).
//!
//! Driver discipline (DESIGN section 1): ALL packets of a result list are queued in order before
//! any of its events is reacted to.

use crate::fw::{guarded, panic_signature};
use crate::rng::Rng;
use bytes::Bytes;
use rml_rtmp::sessions::{
    ClientSession, ClientSessionConfig, ClientSessionEvent, ClientSessionResult, PublishRequestType, ServerSession,
    ServerSessionConfig, ServerSessionEvent, ServerSessionResult, StreamMetadata,
};
use rml_rtmp::time::RtmpTimestamp;
use serde_json::{json, Value};
use std::collections::VecDeque;

#[derive(Clone, Debug, PartialEq)]
pub enum Item {
    Meta(StreamMetadata),
    Audio { data: Vec<u8>, ts: u32, drop: bool },
    Video { data: Vec<u8>, ts: u32, drop: bool },
}

impl Item {
    pub fn brief(&self) -> Value {
        match self {
            Item::Meta(m) => json!({"metadata": format!("{:?}", m)}),
            Item::Audio { data, ts, drop } => json!({"audio": data.len(), "ts": ts, "droppable": drop, "head": crate::rng::hex_short(data, 16)}),
            Item::Video { data, ts, drop } => json!({"video": data.len(), "ts": ts, "droppable": drop, "head": crate::rng::hex_short(data, 16)}),
        }
    }
}

#[derive(Clone, Copy, Debug, PartialEq)]
pub enum Mode {
    PublishLive,
    PublishRecord,
    PublishAppend,
    Play,
}

pub struct Scenario {
    pub app: String,
    pub key: String,
    pub mode: Mode,
    pub items: Vec<Item>,
    pub client_cfg: ClientSessionConfig,
    pub server_cfg: ServerSessionConfig,
    /// scheduler style 0..5
    pub sched: u64,
    /// server application accepts a request this many scheduler steps after it was raised
    pub accept_delay: u64,
    /// items the sender pushes per scheduler step
    pub burst: usize,
    pub max_piece: usize,
}

#[derive(Debug, Clone, PartialEq)]
pub enum Received {
    Meta(StreamMetadata),
    Audio { data: Vec<u8>, ts: u32 },
    Video { data: Vec<u8>, ts: u32 },
}

#[derive(Default)]
pub struct Outcome {
    /// (signature, detail) of the first problem the driver itself observed
    pub problem: Option<(String, Value)>,
    pub connected_client: bool,
    pub connect_requested_app: Option<String>,
    pub activity_requested: Option<(String, String, String)>, // (kind, app, key)
    pub activity_accepted_client: bool,
    pub received: Vec<(String, String, Received)>, // (app, key, item) ; app/key empty on the client side
    pub finished: Vec<(String, String, String)>,   // (kind, app, key)
    pub steps: u64,
    pub bytes_c2s: u64,
    pub bytes_s2c: u64,
    pub client_events_other: u64,
    pub server_events_other: u64,
    pub handle_input_calls: u64,
    pub largest_input_call: u64,
    pub all_c2s: Vec<u8>,
    pub all_s2c: Vec<u8>,
    pub keep_wire: bool,
    pub completed: bool,
}

pub fn default_metadata(rng: &mut Rng) -> StreamMetadata {
    let mut m = StreamMetadata::new();
    if rng.coin() {
        m.video_width = Some(rng.u32_boundary());
    }
    if rng.coin() {
        m.video_height = Some(rng.below(5000) as u32);
    }
    if rng.coin() {
        m.video_codec_id = Some(rng.below(20) as u32);
    }
    if rng.coin() {
        m.video_frame_rate = Some(*rng.pick(&[0.0f32, 23.976, 29.97, 30.0, 60.0, 1e-3]));
    }
    if rng.coin() {
        m.video_bitrate_kbps = Some(rng.u32_boundary());
    }
    if rng.coin() {
        m.audio_codec_id = Some(rng.below(20) as u32);
    }
    if rng.coin() {
        m.audio_bitrate_kbps = Some(rng.below(1000) as u32);
    }
    if rng.coin() {
        m.audio_sample_rate = Some(*rng.pick(&[0u32, 44100, 48000, 0xFFFF_FFFF]));
    }
    if rng.coin() {
        m.audio_channels = Some(rng.below(9) as u32);
    }
    if rng.coin() {
        m.audio_is_stereo = Some(rng.coin());
    }
    if rng.coin() {
        m.encoder = Some(match rng.below(6) {
            // text is text: control characters, white space and digits at either end or alone
            4 => {
                let e = *rng.pick(&["\u{0}", " ", "\t", "\n", "\r\n", "\u{feff}", "\u{a0}", "\u{0}\u{0}\u{0}"]);
                match rng.below(3) {
                    0 => format!("Lavf58.29.100{}", e),
                    1 => format!("{}Lavf58.29.100", e),
                    _ => format!("{}enc{}", e, e),
                }
            }
            5 => rng.pick(&["1280", "0", "true", "null", "NaN", "undefined", "-1.5e3"]).to_string(),
            0 => String::new(),
            1 => "obs-output module (libobs version 27.0.1)".to_string(),
            2 => "é中😀".to_string(),
            _ => "x".repeat(rng.usize(1, 300)),
        });
    }
    m
}

struct Pending {
    request_id: u32,
    due: u64,
    is_play: bool,
}

/// Run the scenario.  `out_counts` receives observation counters.
pub fn run_scenario(sc: &Scenario, rng: &mut Rng, keep_wire: bool) -> Outcome {
    let mut o = Outcome::default();
    o.keep_wire = keep_wire;
    let mut c2s: VecDeque<u8> = VecDeque::new();
    let mut s2c: VecDeque<u8> = VecDeque::new();
    let mut cclock: u64 = 0;
    let mut sclock: u64 = 0;

    macro_rules! problem {
        ($sig:expr, $detail:expr) => {{
            o.problem = Some(($sig.to_string(), $detail));
            return o;
        }};
    }
    macro_rules! lib {
        ($clock:expr, $what:expr, $e:expr) => {{
            rml_rtmp::verif_hooks::set_clock_ms(Some($clock));
            $clock += 1;
            match guarded(|| $e) {
                Ok(v) => v,
                Err((loc, msg)) => problem!(panic_signature(&loc, &msg), json!({"call": $what, "panic_at": loc, "panic_message": msg})),
            }
        }};
    }

    let (mut server, initial) = match lib!(sclock, "ServerSession::new", ServerSession::new(sc.server_cfg.clone())) {
        Ok(x) => x,
        Err(e) => problem!("server-session-new-fails", json!({"error": format!("{:?}", e)})),
    };
    for r in initial {
        match r {
            ServerSessionResult::OutboundResponse(p) => {
                o.bytes_s2c += p.bytes.len() as u64;
                if keep_wire {
                    o.all_s2c.extend_from_slice(&p.bytes);
                }
                s2c.extend(p.bytes.iter());
            }
            _ => {}
        }
    }
    let (mut client, initial) = match lib!(cclock, "ClientSession::new", ClientSession::new(sc.client_cfg.clone())) {
        Ok(x) => x,
        Err(e) => problem!("client-session-new-fails", json!({"error": format!("{:?}", e)})),
    };
    let mut client_results: Vec<ClientSessionResult> = initial;
    match lib!(cclock, "ClientSession::request_connection", client.request_connection(sc.app.clone())) {
        Ok(r) => client_results.push(r),
        Err(e) => problem!("client-request-connection-fails", json!({"error": format!("{:?}", e)})),
    }

    let mut server_results: Vec<ServerSessionResult> = Vec::new();
    let mut pending: Vec<Pending> = Vec::new();
    let mut next_item = 0usize;
    let mut sending = false; // the sending side may push items
    let mut play_stream_id: Option<u32> = None;
    let mut stop_sent = false;
    let mut items_mark: Option<u64> = None;
    let total_item_bytes: usize = sc
        .items
        .iter()
        .map(|i| match i {
            Item::Meta(_) => 400,
            Item::Audio { data, .. } | Item::Video { data, .. } => data.len() + 32,
        })
        .sum();
    let min_chunk = (sc.client_cfg.chunk_size.min(sc.server_cfg.chunk_size).max(1)) as usize;
    // generous logical step budget: bytes (incl. per-chunk headers) / 1 byte per step + slack
    let budget: u64 = (total_item_bytes as u64) * (2 + 16 / min_chunk as u64) + 2_000_000;
    let is_play = sc.mode == Mode::Play;
    let expected_items = sc.items.len();
    let tiny_window = sc.client_cfg.window_ack_size < 64 || sc.server_cfg.window_ack_size < 64;

    loop {
        o.steps += 1;
        if o.steps > budget {
            problem!(
                "scenario-does-not-complete-within-step-budget",
                json!({"steps": o.steps, "connected": o.connected_client, "activity_accepted": o.activity_accepted_client, "items_received": o.received.len(), "items_expected": expected_items, "finished_events": o.finished.len(), "stop_sent": stop_sent})
            );
        }
        // ---- 1. queue every packet of the pending result lists, in order; collect events
        let mut cevents: Vec<ClientSessionEvent> = Vec::new();
        for r in client_results.drain(..) {
            match r {
                ClientSessionResult::OutboundResponse(p) => {
                    o.bytes_c2s += p.bytes.len() as u64;
                    if keep_wire {
                        o.all_c2s.extend_from_slice(&p.bytes);
                    }
                    c2s.extend(p.bytes.iter());
                }
                ClientSessionResult::RaisedEvent(e) => cevents.push(e),
                ClientSessionResult::UnhandleableMessageReceived(_) => o.client_events_other += 1,
            }
        }
        let mut sevents: Vec<ServerSessionEvent> = Vec::new();
        for r in server_results.drain(..) {
            match r {
                ServerSessionResult::OutboundResponse(p) => {
                    o.bytes_s2c += p.bytes.len() as u64;
                    if keep_wire {
                        o.all_s2c.extend_from_slice(&p.bytes);
                    }
                    s2c.extend(p.bytes.iter());
                }
                ServerSessionResult::RaisedEvent(e) => sevents.push(e),
                ServerSessionResult::UnhandleableMessageReceived(_) => o.server_events_other += 1,
            }
        }
        // ---- 2. react to events
        for e in cevents {
            match e {
                ClientSessionEvent::ConnectionRequestAccepted => {
                    o.connected_client = true;
                    let r = match sc.mode {
                        Mode::Play => lib!(cclock, "ClientSession::request_playback", client.request_playback(sc.key.clone())),
                        Mode::PublishLive => lib!(cclock, "ClientSession::request_publishing", client.request_publishing(sc.key.clone(), PublishRequestType::Live)),
                        Mode::PublishRecord => lib!(cclock, "ClientSession::request_publishing", client.request_publishing(sc.key.clone(), PublishRequestType::Record)),
                        Mode::PublishAppend => lib!(cclock, "ClientSession::request_publishing", client.request_publishing(sc.key.clone(), PublishRequestType::Append)),
                    };
                    match r {
                        Ok(r) => client_results.push(r),
                        Err(e) => problem!("client-request-activity-fails", json!({"error": format!("{:?}", e)})),
                    }
                }
                ClientSessionEvent::ConnectionRequestRejected { description } => problem!("connection-rejected", json!({ "description": description })),
                ClientSessionEvent::PublishRequestAccepted => {
                    o.activity_accepted_client = true;
                    if !is_play {
                        sending = true;
                    }
                }
                ClientSessionEvent::PlaybackRequestAccepted => {
                    o.activity_accepted_client = true;
                }
                ClientSessionEvent::StreamMetadataReceived { metadata } => o.received.push((String::new(), String::new(), Received::Meta(metadata))),
                ClientSessionEvent::AudioDataReceived { data, timestamp } => o.received.push((String::new(), String::new(), Received::Audio { data: data.to_vec(), ts: timestamp.value })),
                ClientSessionEvent::VideoDataReceived { data, timestamp } => o.received.push((String::new(), String::new(), Received::Video { data: data.to_vec(), ts: timestamp.value })),
                _ => o.client_events_other += 1,
            }
        }
        for e in sevents {
            match e {
                ServerSessionEvent::ConnectionRequested { request_id, app_name } => {
                    o.connect_requested_app = Some(app_name);
                    pending.push(Pending { request_id, due: o.steps + sc.accept_delay, is_play: false });
                }
                ServerSessionEvent::PublishStreamRequested { request_id, app_name, stream_key, mode } => {
                    o.activity_requested = Some((format!("publish:{:?}", mode), app_name, stream_key));
                    pending.push(Pending { request_id, due: o.steps + sc.accept_delay, is_play: false });
                }
                ServerSessionEvent::PlayStreamRequested { request_id, app_name, stream_key, stream_id, .. } => {
                    o.activity_requested = Some(("play".to_string(), app_name, stream_key));
                    play_stream_id = Some(stream_id);
                    pending.push(Pending { request_id, due: o.steps + sc.accept_delay, is_play: true });
                }
                ServerSessionEvent::StreamMetadataChanged { app_name, stream_key, metadata } => o.received.push((app_name, stream_key, Received::Meta(metadata))),
                ServerSessionEvent::AudioDataReceived { app_name, stream_key, data, timestamp } => o.received.push((app_name, stream_key, Received::Audio { data: data.to_vec(), ts: timestamp.value })),
                ServerSessionEvent::VideoDataReceived { app_name, stream_key, data, timestamp } => o.received.push((app_name, stream_key, Received::Video { data: data.to_vec(), ts: timestamp.value })),
                ServerSessionEvent::PublishStreamFinished { app_name, stream_key } => o.finished.push(("publish".into(), app_name, stream_key)),
                ServerSessionEvent::PlayStreamFinished { app_name, stream_key } => o.finished.push(("play".into(), app_name, stream_key)),
                _ => o.server_events_other += 1,
            }
        }
        // ---- 3. server application: accept due requests
        let mut i = 0;
        while i < pending.len() {
            if pending[i].due <= o.steps {
                let p = pending.remove(i);
                match lib!(sclock, "ServerSession::accept_request", server.accept_request(p.request_id)) {
                    Ok(rs) => {
                        server_results.extend(rs);
                        if p.is_play {
                            sending = true;
                        }
                    }
                    Err(e) => problem!("server-accept-request-fails", json!({"error": format!("{:?}", e), "request_id": p.request_id})),
                }
            } else {
                i += 1;
            }
        }
        if !server_results.is_empty() || !client_results.is_empty() {
            continue; // queue them first
        }
        // ---- 4. the sending side pushes items
        if sending && next_item < sc.items.len() {
            for _ in 0..sc.burst.max(1) {
                if next_item >= sc.items.len() {
                    break;
                }
                let it = &sc.items[next_item];
                next_item += 1;
                if is_play {
                    let sid = play_stream_id.unwrap();
                    let r = match it {
                        Item::Meta(m) => lib!(sclock, "ServerSession::send_metadata", server.send_metadata(sid, m)),
                        Item::Audio { data, ts, drop } => lib!(sclock, "ServerSession::send_audio_data", server.send_audio_data(sid, Bytes::from(data.clone()), RtmpTimestamp::new(*ts), *drop)),
                        Item::Video { data, ts, drop } => lib!(sclock, "ServerSession::send_video_data", server.send_video_data(sid, Bytes::from(data.clone()), RtmpTimestamp::new(*ts), *drop)),
                    };
                    match r {
                        Ok(p) => server_results.push(ServerSessionResult::OutboundResponse(p)),
                        Err(e) => problem!("server-send-fails", json!({"error": format!("{:?}", e), "item": it.brief()})),
                    }
                } else {
                    let r = match it {
                        Item::Meta(m) => lib!(cclock, "ClientSession::publish_metadata", client.publish_metadata(m)),
                        Item::Audio { data, ts, drop } => lib!(cclock, "ClientSession::publish_audio_data", client.publish_audio_data(Bytes::from(data.clone()), RtmpTimestamp::new(*ts), *drop)),
                        Item::Video { data, ts, drop } => lib!(cclock, "ClientSession::publish_video_data", client.publish_video_data(Bytes::from(data.clone()), RtmpTimestamp::new(*ts), *drop)),
                    };
                    match r {
                        Ok(r) => client_results.push(r),
                        Err(e) => problem!("client-publish-fails", json!({"error": format!("{:?}", e), "item": it.brief()})),
                    }
                }
            }
            continue;
        }
        // ---- 5. stop once everything was sent (publish: at once; play: when the client has it all)
        if sending && next_item >= sc.items.len() && !stop_sent {
            // play: stop once everything the server sent has been delivered to and processed by the client
            // (with tiny acknowledgement windows the pipes never drain, so "delivered" is measured
            // against the byte count queued when the last item had been queued)
            if items_mark.is_none() {
                items_mark = Some(o.bytes_s2c);
            }
            let delivered = o.bytes_s2c - s2c.len() as u64;
            let ready = if is_play { delivered >= items_mark.unwrap() && o.activity_accepted_client } else { true };
            if ready {
                stop_sent = true;
                let r = if is_play { lib!(cclock, "ClientSession::stop_playback", client.stop_playback()) } else { lib!(cclock, "ClientSession::stop_publishing", client.stop_publishing()) };
                match r {
                    Ok(rs) => client_results.extend(rs),
                    Err(e) => problem!("client-stop-fails", json!({"error": format!("{:?}", e)})),
                }
                continue;
            }
        }
        // ---- 6. done?
        if stop_sent && !o.finished.is_empty() {
            o.completed = true;
            return o;
        }
        // ---- 7. deliver bytes
        let can_c = !c2s.is_empty();
        let can_s = !s2c.is_empty();
        if !can_c && !can_s {
            if pending.is_empty() {
                // nothing in flight and nothing scheduled: the script is stuck
                problem!(
                    "scenario-stalls-with-nothing-in-flight",
                    json!({"connected": o.connected_client, "activity_accepted": o.activity_accepted_client, "items_sent": next_item, "items_received": o.received.len(), "items_expected": expected_items, "finished_events": o.finished.len(), "stop_sent": stop_sent})
                );
            }
            continue;
        }
        let to_server = if can_c && can_s {
            match sc.sched {
                4 => o.steps % 64 < 48, // starve the server->client direction for a while, then swap
                5 => o.steps % 64 >= 48,
                _ => rng.coin(),
            }
        } else {
            can_c
        };
        let avail = if to_server { c2s.len() } else { s2c.len() };
        let n = match sc.sched {
            0 => 1,
            1 => avail,
            2 => rng.usize(1, sc.max_piece),
            3 => match rng.below(4) {
                0 => 1,
                1 => rng.usize(1, 16),
                2 => avail,
                _ => rng.usize(1, sc.max_piece),
            },
            _ => rng.usize(1, sc.max_piece),
        }
        .min(avail);
        // byte-by-byte over megabytes is too slow to be useful: after a while deliver in pieces
        let n = if sc.sched == 0 && o.steps > 60_000 { avail.min(4096) } else { n };
        // With a tiny acknowledgement window every input call is answered by an Acknowledgement
        // packet (8-16 bytes).  If those are delivered in pieces smaller than themselves the two
        // sessions acknowledge each other's acknowledgements with amplification > 1 and the pipes
        // grow without bound - a property of the protocol at window 1, not of the library - so
        // the network never fragments below 32 bytes in that configuration.
        let n = if tiny_window { n.max(32).min(avail) } else { n };
        o.handle_input_calls += 1;
        o.largest_input_call = o.largest_input_call.max(n as u64);
        if to_server {
            let piece: Vec<u8> = c2s.drain(..n).collect();
            match lib!(sclock, "ServerSession::handle_input", server.handle_input(&piece)) {
                Ok(rs) => server_results.extend(rs),
                Err(e) => problem!("server-handle-input-error", json!({"error": format!("{:?}", e), "bytes_delivered_so_far": o.bytes_c2s - c2s.len() as u64})),
            }
        } else {
            let piece: Vec<u8> = s2c.drain(..n).collect();
            match lib!(cclock, "ClientSession::handle_input", client.handle_input(&piece)) {
                Ok(rs) => client_results.extend(rs),
                Err(e) => problem!("client-handle-input-error", json!({"error": format!("{:?}", e), "bytes_delivered_so_far": o.bytes_s2c - s2c.len() as u64})),
            }
        }
    }
}

pub fn scenario_json(sc: &Scenario) -> Value {
    json!({
        "app": if sc.app.len() > 60 { format!("<{} bytes>", sc.app.len()) } else { sc.app.clone() },
        "key": if sc.key.len() > 60 { format!("<{} bytes>", sc.key.len()) } else { sc.key.clone() },
        "mode": format!("{:?}", sc.mode),
        "items": sc.items.iter().take(12).map(|i| i.brief()).collect::<Vec<_>>(),
        "items_total": sc.items.len(),
        "client": {"chunk_size": sc.client_cfg.chunk_size, "window_ack_size": sc.client_cfg.window_ack_size, "buffer_ms": sc.client_cfg.playback_buffer_length_ms,
                   "flash_version_len": sc.client_cfg.flash_version.len(), "tc_url_len": sc.client_cfg.tc_url.as_ref().map(|t| t.len())},
        "server": {"chunk_size": sc.server_cfg.chunk_size, "window_ack_size": sc.server_cfg.window_ack_size, "peer_bandwidth": sc.server_cfg.peer_bandwidth,
                   "fms_version_len": sc.server_cfg.fms_version.len(), "on_bw_done": sc.server_cfg.send_on_bw_done_message_on_start},
        "scheduler": sc.sched, "accept_delay": sc.accept_delay, "burst": sc.burst, "max_piece": sc.max_piece,
    })
}
