//! C10 - the client session follows the connect/create/publish|play workflow in every history.
//! The real ClientSession in lock-step with `model::client`.

use super::c02::ClockGuard;
use super::sessprep::{self, command, status_obj, ClientRig};
use crate::fw::{guarded, panic_signature, Check, Out, Plan, Tier};
use crate::model::client::{tags_of, Ev, Model, Obs, Op, Purpose, St, Verdict};
use crate::refs::amf::{self, V};
use crate::refs::msg::RMsg;
use crate::rng::{mix, Rng};
use bytes::Bytes;
use rml_rtmp::sessions::{ClientSessionConfig, ClientSessionEvent, ClientSessionResult, PublishRequestType, StreamMetadata};
use rml_rtmp::time::RtmpTimestamp;
use serde_json::{json, Value};

pub struct C10;

pub fn ev_of(e: &ClientSessionEvent) -> Option<Ev> {
    Some(match e {
        ClientSessionEvent::ConnectionRequestAccepted => Ev::ConnectionAccepted,
        ClientSessionEvent::ConnectionRequestRejected { .. } => Ev::ConnectionRejected,
        ClientSessionEvent::PlaybackRequestAccepted => Ev::PlaybackAccepted,
        ClientSessionEvent::PublishRequestAccepted => Ev::PublishAccepted,
        ClientSessionEvent::StreamMetadataReceived { .. } => Ev::Metadata,
        ClientSessionEvent::VideoDataReceived { timestamp, data } => Ev::Video { ts: timestamp.value, data: data.to_vec() },
        ClientSessionEvent::AudioDataReceived { timestamp, data } => Ev::Audio { ts: timestamp.value, data: data.to_vec() },
        ClientSessionEvent::UnknownTransactionResultReceived { transaction_id, .. } => Ev::UnknownTransaction { txid_bits: transaction_id.to_bits() },
        ClientSessionEvent::UnhandleableOnStatusCode { code } => Ev::UnhandleableStatus { code: code.clone() },
        ClientSessionEvent::AcknowledgementReceived { bytes_received } => Ev::AckReceived { n: *bytes_received },
        ClientSessionEvent::PingResponseReceived { timestamp } => Ev::PingResponse { ts: timestamp.value },
        ClientSessionEvent::UnhandleableAmf0Command { .. } => return None,
    })
}

pub fn server_message(op: &Op) -> Option<(RMsg, u32, u32)> {
    Some(match op {
        Op::Result { txid, stream_id, non_number } => {
            let args = if *non_number {
                vec![amf::s("five")]
            } else {
                match stream_id {
                    Some(s) => vec![amf::num(*s)],
                    None => vec![],
                }
            };
            // a connect result and a createStream result differ only in their arguments; the
            // client decides by transaction id, so one form serves both
            // the command object of a result is the server's business: null, undefined or an
            // information object (varied with the returned stream id, so that every kind occurs)
            let obj = if stream_id.is_some() || *non_number {
                match stream_id.map(|x| x as u64 % 4).unwrap_or(0) {
                    1 => V::Undef,
                    3 => amf::obj(vec![("fmsVer", amf::s("FMS/3")), ("capabilities", amf::num(31.0))]),
                    _ => V::Null,
                }
            } else {
                amf::obj(vec![("fmsVer", amf::s("FMS/3"))])
            };
            (command("_result", *txid, obj, if args.is_empty() { vec![status_obj("status", "NetConnection.Connect.Success", "ok")] } else { args }), 0, 0)
        }
        Op::Error { txid } => (command("_error", *txid, V::Null, vec![status_obj("error", "NetConnection.Connect.Rejected", "no")]), 0, 0),
        Op::OtherCommand { txid } => (command(if (*txid as u64) % 2 == 0 { "onBWDone" } else { "onFCPublish" }, *txid, V::Null, vec![amf::num(8192.0)]), 0, 0),
        Op::OnStatus { code, form, msid, txid } => {
            let args = match form {
                0 => vec![match code {
                    Some(c) => status_obj("status", c, "d"),
                    None => amf::obj(vec![("level", amf::s("status"))]),
                }],
                // the status object followed by further arguments (servers append a client id,
                // details ...): the information object is the first argument
                4 => vec![
                    match code {
                        Some(c) => status_obj("status", c, "d"),
                        None => amf::obj(vec![("level", amf::s("status"))]),
                    },
                    V::Null,
                    amf::num(7.0),
                ],
                // information objects of other shapes around the same code: the code decides
                5 | 6 if code.is_some() => vec![status_obj(if *form == 5 { "error" } else { "warning" }, code.as_deref().unwrap(), "d")],
                7 if code.is_some() => vec![amf::obj(vec![("code", amf::s(code.as_deref().unwrap()))])],
                8 if code.is_some() => vec![amf::obj(vec![
                    ("code", amf::s(code.as_deref().unwrap())),
                    ("level", amf::s("status")),
                    ("description", amf::s("Started playing stream. ".repeat(9).as_str())),
                    ("details", amf::s("key0")),
                    ("clientid", amf::num(1584259571.0)),
                    ("timecode", amf::num(0.0)),
                    ("isFastPlay", V::Bool(false)),
                ])],
                9 if code.is_some() => vec![amf::obj(vec![("level", amf::num(0.0)), ("description", V::Null), ("code", amf::s(code.as_deref().unwrap()))])],
                1 => vec![],
                2 => vec![amf::s("not an object")],
                _ => vec![amf::obj(vec![("code", amf::num(5.0))])],
            };
            (command("onStatus", *txid, V::Null, args), *msid, 0)
        }
        Op::Audio { msid, ts, data } => (RMsg::Audio(data.clone()), *msid, *ts),
        Op::Video { msid, ts, data } => (RMsg::Video(data.clone()), *msid, *ts),
        Op::OnMetaData { msid } => (RMsg::Data(vec![amf::s("onMetaData"), amf::obj(vec![("width", amf::num(320.0))])]), *msid, 0),
        Op::Ping { ts, msid } => (RMsg::UserControl(6, vec![*ts]), *msid, 0),
        Op::Control { kind, n, msid } => (
            match kind {
                0 => RMsg::Abort(*n),
                1 => RMsg::SetPeerBw(*n, (*n % 3) as u8),
                2 => RMsg::UserControl(1, vec![*n]),
                3 => RMsg::UserControl(2, vec![*n]),
                4 => RMsg::UserControl(4, vec![*n]),
                _ => RMsg::UserControl(3, vec![*n, 1000]),
            },
            *msid,
            0,
        ),
        Op::PingResponse { ts } => (RMsg::UserControl(7, vec![*ts]), 0, 0),
        Op::Ack { n } => (RMsg::Ack(*n), 0, 0),
        Op::SetChunkSize { n } => (RMsg::SetChunkSize(*n), 0, 0),
        Op::StreamBegin { id } => (RMsg::UserControl(0, vec![*id]), 0, 0),
        _ => return None,
    })
}

pub fn execute(rig: &mut ClientRig, op: &Op) -> Result<Obs, (String, String)> {
    let r = guarded(|| -> Result<sessprep::Step<ClientSessionEvent>, String> {
        if let Some((m, msid, ts)) = server_message(op) {
            return rig.send(&m, msid, ts);
        }
        rig.tick();
        let one = |rig: &mut ClientRig, r: Result<ClientSessionResult, rml_rtmp::sessions::ClientSessionError>| rig.one(r);
        match op {
            Op::RequestConnection { app } => {
                let r = rig.s.request_connection(app.clone());
                one(rig, r)
            }
            Op::RequestPlayback { key } => {
                let r = rig.s.request_playback(key.clone());
                one(rig, r)
            }
            Op::RequestPublishing { key, kind } => {
                let k = match kind.as_str() {
                    "live" => PublishRequestType::Live,
                    "record" => PublishRequestType::Record,
                    _ => PublishRequestType::Append,
                };
                let r = rig.s.request_publishing(key.clone(), k);
                one(rig, r)
            }
            Op::StopPlayback => rig.s.stop_playback().map(|rs| rig.absorb(rs)).map_err(|e| format!("{:?}", e)),
            Op::StopPublishing => rig.s.stop_publishing().map(|rs| rig.absorb(rs)).map_err(|e| format!("{:?}", e)),
            Op::PublishMetadata => {
                let mut m = StreamMetadata::new();
                m.video_height = Some(720);
                let r = rig.s.publish_metadata(&m);
                one(rig, r)
            }
            Op::PublishVideo { ts, data, drop } => {
                let r = rig.s.publish_video_data(Bytes::from(data.clone()), RtmpTimestamp::new(*ts), *drop);
                one(rig, r)
            }
            Op::PublishAudio { ts, data, drop } => {
                let r = rig.s.publish_audio_data(Bytes::from(data.clone()), RtmpTimestamp::new(*ts), *drop);
                one(rig, r)
            }
            Op::SendPing => rig.s.send_ping_request().map(|(p, _)| rig.absorb(vec![ClientSessionResult::OutboundResponse(p)])).map_err(|e| format!("{:?}", e)),
            _ => unreachable!(),
        }
    })?;
    Ok(match r {
        Err(e) => Obs { ok: false, error: e, events: vec![], tags: vec![], bytes_emitted: 0 },
        Ok(st) => {
            let events: Vec<Ev> = st.events.iter().filter_map(ev_of).collect();
            let bytes: usize = st.packets.iter().map(|p| p.len()).sum();
            match sessprep::decode_packets(&mut rig.dec, &st.packets) {
                Ok(ms) => Obs { ok: true, error: String::new(), events, tags: tags_of(&ms), bytes_emitted: bytes },
                Err(e) => Obs { ok: true, error: format!("UNDECODABLE: {}", e), events, tags: vec![], bytes_emitted: bytes },
            }
        }
    })
}

#[derive(Clone, Copy, Debug, PartialEq)]
pub enum TxSel {
    Connect,
    Create,
    Stale,
    Unknown,
    Zero,
    Max,
    /// an outstanding id plus or minus a fraction (never issued, so unknown)
    FracAbove,
    FracBelow,
    /// an outstanding id plus 2^32, a negative number, NaN
    Alias,
    Negative,
    NaN,
    /// the id the next request would get (one above every id seen so far): never issued, so
    /// unknown - also when a request that was refused has consumed it
    NextUnissued,
}

#[derive(Clone, Copy, Debug, PartialEq)]
pub enum MsidSel {
    Active,
    Other,
    Zero,
}

#[derive(Clone, Copy, Debug, PartialEq)]
pub enum Sym {
    RequestConnection,
    /// request_connection with an application name longer than an AMF0 string can be
    RequestConnectionUnexpressible,
    RequestPlayback,
    RequestPublishing,
    StopPlayback,
    StopPublishing,
    PublishMetadata,
    PublishVideo,
    PublishAudio,
    SendPing,
    Result(TxSel, u8), // 0: with stream id, 1: without, 2: non-number
    Error(TxSel),
    StatusPlayStart,
    StatusPublishStart,
    StatusUnknown,
    StatusMalformed(u8),
    Audio(MsidSel),
    Video(MsidSel),
    OnMetaData(MsidSel),
    Ping,
    PingResponse,
    Ack,
    SetChunkSize,
    StreamBegin,
}

fn sel_tx(m: &Model, s: TxSel, rng: &mut Rng) -> f64 {
    let any_outstanding = m.outstanding.keys().next().map(|x| *x as f64).unwrap_or(1.0);
    match s {
        TxSel::FracAbove => any_outstanding + *rng.pick(&[0.25, 0.5, 0.75, 0.999, 1e-9]),
        TxSel::FracBelow => any_outstanding - *rng.pick(&[0.25, 0.5, 0.4, 0.75, 0.001, 1e-9]),
        TxSel::Alias => any_outstanding + 4294967296.0,
        TxSel::Negative => -any_outstanding,
        TxSel::NaN => f64::NAN,
        TxSel::NextUnissued => m.used_txids.iter().next_back().map(|x| *x as f64 + 1.0).unwrap_or(1.0),
        TxSel::Connect => m.outstanding.iter().find(|x| *x.1 == Purpose::Connect).map(|x| *x.0 as f64).unwrap_or(1.0),
        TxSel::Create => m.outstanding.iter().find(|x| *x.1 != Purpose::Connect).map(|x| *x.0 as f64).unwrap_or(2.0),
        TxSel::Stale => m.answered_txids.last().map(|x| *x as f64).unwrap_or(900.0),
        TxSel::Unknown => 999.0,
        TxSel::Zero => 0.0,
        TxSel::Max => 4294967295.0,
    }
}

/// one name in 250 is as long as an AMF0 string can be (65,535 bytes) or one byte shorter
fn long_name(rng: &mut Rng) -> Option<String> {
    if rng.chance(1, 250) {
        let n = *rng.pick(&[65_535usize, 65_535, 65_534]);
        let unit = *rng.pick(&["a", "\u{e9}", "\u{4e2d}"]);
        let mut s = unit.repeat(n / unit.len());
        while s.len() < n {
            s.push('x');
        }
        Some(s)
    } else {
        None
    }
}

/// transaction id of a status / unknown command: 0 as a rule, one in five the id of an
/// outstanding transaction (which it does not answer)
fn status_tx(m: &Model, rng: &mut Rng) -> f64 {
    if rng.chance(1, 5) {
        m.outstanding.keys().next().map(|x| *x as f64).unwrap_or(1.0)
    } else {
        0.0
    }
}

fn sel_msid(m: &Model, s: MsidSel) -> u32 {
    match s {
        MsidSel::Active => m.active_stream.unwrap_or(5),
        MsidSel::Other => m.active_stream.map(|x| x + 1).unwrap_or(6),
        MsidSel::Zero => 0,
    }
}

pub fn resolve(sym: Sym, m: &Model, rng: &mut Rng, step: usize) -> Op {
    let media = |rng: &mut Rng| -> (u32, Vec<u8>) {
        let mut d = rng.bytes_in(0, 40);
        let t = if rng.coin() { 8 } else { 9 };
        rng.flv_prefix(t, &mut d);
        (rng.u32_boundary(), d)
    };
    match sym {
        Sym::RequestConnection => Op::RequestConnection { app: long_name(rng).unwrap_or_else(|| rng.spice(format!("app{}", step % 3))) },
        Sym::RequestConnectionUnexpressible => {
            let n = *rng.pick(&[65_536usize, 65_536, 65_537, 70_000, 131_072]);
            let unit = *rng.pick(&["a", "a", "\u{e9}", "\u{4e2d}"]);
            let mut s = unit.repeat(n / unit.len());
            while s.len() < n {
                s.push('x');
            }
            Op::RequestConnection { app: s }
        }
        Sym::RequestPlayback => Op::RequestPlayback { key: long_name(rng).unwrap_or_else(|| rng.spice(format!("key{}", step % 2))) },
        Sym::RequestPublishing => Op::RequestPublishing { key: long_name(rng).unwrap_or_else(|| rng.spice(format!("key{}", step % 2))), kind: rng.pick(&["live", "record", "append"]).to_string() },
        Sym::StopPlayback => Op::StopPlayback,
        Sym::StopPublishing => Op::StopPublishing,
        Sym::PublishMetadata => Op::PublishMetadata,
        Sym::PublishVideo => {
            let (ts, data) = media(rng);
            Op::PublishVideo { ts, data, drop: rng.coin() }
        }
        Sym::PublishAudio => {
            let (ts, data) = media(rng);
            Op::PublishAudio { ts, data, drop: rng.coin() }
        }
        Sym::SendPing => Op::SendPing,
        Sym::Result(t, form) => Op::Result { txid: sel_tx(m, t, rng), stream_id: if form == 0 { Some(*rng.pick(&[1.0, 5.0, 5.0, 7.0, 0.0])) } else { None }, non_number: form == 2 },
        Sym::Error(t) => Op::Error { txid: sel_tx(m, t, rng) },
        Sym::StatusPlayStart if rng.chance(1, 12) => Op::OtherCommand { txid: status_tx(m, rng) },
        Sym::StatusPlayStart => Op::OnStatus { code: Some("NetStream.Play.Start".into()), form: if rng.chance(1, 5) { 4 } else if rng.chance(1, 5) { 5 + rng.below(5) as u8 } else { 0 }, msid: sel_msid(m, MsidSel::Active) , txid: status_tx(m, rng) },
        Sym::StatusPublishStart => Op::OnStatus { code: Some("NetStream.Publish.Start".into()), form: if rng.chance(1, 5) { 4 } else if rng.chance(1, 5) { 5 + rng.below(5) as u8 } else { 0 }, msid: sel_msid(m, MsidSel::Active) , txid: status_tx(m, rng) },
        Sym::StatusUnknown => Op::OnStatus { code: Some(rng.pick(&["NetStream.Play.Reset", "NetStream.Play.Stop", "NetStream.Unpublish.Success", "x", "NetStream.Play.START", "netstream.publish.start", "NETSTREAM.PLAY.START", "NetStream.Publish.Start ", " NetStream.Play.Start", "NetStream.Publish.Start\u{0}", "NetStream.Play.Star", "NetStream.Publish.Started"]).to_string()), form: if rng.chance(1, 6) { 5 + rng.below(5) as u8 } else { 0 }, msid: sel_msid(m, MsidSel::Active) , txid: status_tx(m, rng) },
        Sym::StatusMalformed(f) => Op::OnStatus { code: None, form: f, msid: 0 , txid: status_tx(m, rng) },
        Sym::Audio(s) => {
            let (ts, data) = media(rng);
            Op::Audio { msid: sel_msid(m, s), ts, data }
        }
        Sym::Video(s) => {
            let (ts, data) = media(rng);
            Op::Video { msid: sel_msid(m, s), ts, data }
        }
        Sym::OnMetaData(s) => Op::OnMetaData { msid: sel_msid(m, s) },
        Sym::Ping => {
            // one ping in four names a message stream other than 0; one in four is instead another
            // control message carrying the active stream id, an outstanding transaction id or a small number
            let active = m.active_stream.unwrap_or(5);
            if rng.chance(1, 4) {
                let n = match rng.below(3) {
                    0 => active,
                    1 => m.outstanding.keys().next().cloned().unwrap_or(1),
                    _ => rng.below(4) as u32,
                };
                Op::Control { kind: rng.below(6) as u8, n, msid: if rng.chance(1, 4) { active } else { 0 } }
            } else {
                Op::Ping { ts: rng.u32_boundary(), msid: if rng.chance(1, 3) { *rng.pick(&[active, 1, active + 1]) } else { 0 } }
            }
        }
        Sym::PingResponse => Op::PingResponse { ts: rng.u32_boundary() },
        Sym::Ack => Op::Ack { n: rng.u32_boundary() },
        Sym::SetChunkSize => Op::SetChunkSize { n: *rng.pick(&[128u32, 4096, 1, 60000]) },
        Sym::StreamBegin => Op::StreamBegin { id: rng.below(8) as u32 },
    }
}

pub const ENUM_ALPHABET: [Sym; 14] = [
    Sym::RequestConnection,
    Sym::RequestPlayback,
    Sym::RequestPublishing,
    Sym::StopPlayback,
    Sym::StopPublishing,
    Sym::PublishVideo,
    Sym::Result(TxSel::Connect, 1),
    Sym::Result(TxSel::Create, 0),
    Sym::Result(TxSel::Stale, 0),
    Sym::StatusPlayStart,
    Sym::StatusPublishStart,
    Sym::Video(MsidSel::Active),
    Sym::OnMetaData(MsidSel::Active),
    Sym::Ping,
];

/// second enumeration alphabet: answers to createStream (current, stale, unknown, refused),
/// both activities, media on the active and on another stream; run after the fixed prefix
/// request_connection, connect result
pub const ENUM_ALPHABET_B: [Sym; 14] = [
    Sym::RequestPlayback,
    Sym::RequestPublishing,
    Sym::Result(TxSel::Create, 0),
    Sym::Result(TxSel::Stale, 0),
    Sym::Result(TxSel::Unknown, 0),
    Sym::Error(TxSel::Create),
    Sym::StatusPlayStart,
    Sym::StatusPublishStart,
    Sym::StopPlayback,
    Sym::StopPublishing,
    Sym::Audio(MsidSel::Active),
    Sym::Audio(MsidSel::Other),
    Sym::PublishAudio,
    Sym::OnMetaData(MsidSel::Other),
];
pub const PREFIX_B: [Sym; 2] = [Sym::RequestConnection, Sym::Result(TxSel::Connect, 1)];

pub fn random_sym(rng: &mut Rng, m: &Model) -> Sym {
    if rng.chance(1, 3) {
        // progress
        match m.st {
            St::Disconnected => {
                return if m.outstanding.values().any(|p| *p == Purpose::Connect) { Sym::Result(TxSel::Connect, 1) } else { Sym::RequestConnection };
            }
            St::Connected => {
                return if m.outstanding.values().any(|p| *p != Purpose::Connect) { Sym::Result(TxSel::Create, 0) } else if rng.coin() { Sym::RequestPlayback } else { Sym::RequestPublishing };
            }
            St::PlayRequested => return Sym::StatusPlayStart,
            St::PublishRequested => return Sym::StatusPublishStart,
            St::Playing => return *rng.pick(&[Sym::Video(MsidSel::Active), Sym::Audio(MsidSel::Active), Sym::OnMetaData(MsidSel::Active), Sym::StopPlayback]),
            St::Publishing => return *rng.pick(&[Sym::PublishVideo, Sym::PublishAudio, Sym::PublishMetadata, Sym::StopPublishing]),
        }
    }
    let tx = |rng: &mut Rng| *rng.pick(&[TxSel::Connect, TxSel::Create, TxSel::Create, TxSel::Stale, TxSel::Stale, TxSel::Unknown, TxSel::Zero, TxSel::Max, TxSel::FracAbove, TxSel::FracBelow, TxSel::Alias, TxSel::Negative, TxSel::NaN, TxSel::NextUnissued]);
    let ms = |rng: &mut Rng| *rng.pick(&[MsidSel::Active, MsidSel::Active, MsidSel::Other, MsidSel::Zero]);
    match rng.below(34) {
        0 | 1 => {
            if rng.chance(1, 10) {
                Sym::RequestConnectionUnexpressible
            } else {
                Sym::RequestConnection
            }
        }
        2 | 3 => Sym::RequestPlayback,
        4 | 5 => Sym::RequestPublishing,
        6 | 7 => Sym::StopPlayback,
        8 | 9 => Sym::StopPublishing,
        10 => Sym::PublishMetadata,
        11 => Sym::PublishVideo,
        12 => Sym::PublishAudio,
        13 => Sym::SendPing,
        14 | 15 | 16 => Sym::Result(tx(rng), *rng.pick(&[0u8, 0, 0, 1, 2])),
        17 | 18 => Sym::Error(tx(rng)),
        19 | 20 => Sym::StatusPlayStart,
        21 | 22 => Sym::StatusPublishStart,
        23 => Sym::StatusUnknown,
        24 => Sym::StatusMalformed(1 + rng.below(3) as u8),
        25 | 26 => Sym::Audio(ms(rng)),
        27 | 28 => Sym::Video(ms(rng)),
        29 => Sym::OnMetaData(ms(rng)),
        30 => Sym::Ping,
        31 => Sym::PingResponse,
        32 => *rng.pick(&[Sym::Ack, Sym::StreamBegin]),
        _ => Sym::SetChunkSize,
    }
}

pub fn op_json(op: &Op) -> Value {
    json!(format!("{:?}", op).chars().take(160).collect::<String>())
}

fn run_history(next: &mut dyn FnMut(usize, &Model, &mut Rng) -> Option<Sym>, rng: &mut Rng, out: &mut Out) -> bool {
    out.eval(1);
    let mut cfg = ClientSessionConfig::new();
    cfg.flash_version = rng.spice(cfg.flash_version.clone());
    if rng.chance(1, 4) {
        cfg.tc_url = Some(rng.spice("rtmp://host/app".to_string()));
    }
    cfg.chunk_size = *rng.pick(&[4096u32, 128, 1]);
    let mut rig = match ClientRig::new(cfg, 5000) {
        Ok(r) => r,
        Err(e) => {
            out.violation("client-session-new-fails", json!({ "error": e }));
            return false;
        }
    };
    let mut model = Model::new();
    let mut log: Vec<Value> = Vec::new();
    let mut shape = 0u64;
    let mut step = 0usize;
    loop {
        let sym = match next(step, &model, rng) {
            Some(s) => s,
            None => break,
        };
        let op = resolve(sym, &model, rng, step);
        let class_before = model.state_class();
        let obs = match execute(&mut rig, &op) {
            Ok(o) => o,
            Err((loc, msg)) => {
                out.violation(&panic_signature(&loc, &msg), json!({"panic_at": loc, "panic_message": msg, "op": op_json(&op), "history": log}));
                return false;
            }
        };
        if obs.error.starts_with("UNDECODABLE") {
            out.violation("session-output-not-decodable", json!({"clause": obs.error, "op": op_json(&op), "history": log}));
            return false;
        }
        if log.len() < 90 {
            log.push(json!({"op": op_json(&op), "state_before": class_before, "ok": obs.ok, "error": obs.error.chars().take(80).collect::<String>(),
                "events": obs.events.iter().map(|e| format!("{:?}", e).chars().take(100).collect::<String>()).collect::<Vec<_>>(),
                "emitted": obs.tags.iter().map(|t| format!("{:?}", t).chars().take(120).collect::<String>()).collect::<Vec<_>>()}));
        }
        let sym_name = format!("{:?}", sym);
        let sym_class = sym_name.split('(').next().unwrap_or("?").to_string();
        out.count(&format!("transition_{}__{}", class_before, sym_class), 1);
        shape = mix(shape, mix(crate::rng::fnv(class_before.as_bytes()), crate::rng::fnv(sym_name.as_bytes())));
        match model.step(&op, &obs) {
            Verdict::Agree => {}
            Verdict::EndedByExpectedError => {
                out.count("histories_ended_by_expected_session_error", 1);
                break;
            }
            Verdict::Diverge(clause, why) => {
                out.violation(&format!("diverges-from-workflow:{}", clause), json!({"explanation": why, "op": op_json(&op), "model_state": model.state_class(), "history": log}));
                return false;
            }
        }
        step += 1;
    }
    for c in model.corners.iter() {
        out.count(&format!("corner_{}", c), 1);
    }
    out.count("steps_agreeing", step as u64);
    out.count("histories_agreeing", 1);
    out.count(&format!("final_state_{:?}", model.st), 1);
    if step >= 2 {
        out.shape(shape);
    }
    out.sample(|| json!({"history": log}));
    true
}

impl C10 {
    pub fn enum_len(tier: Tier) -> usize {
        tier.pick(5, 6)
    }
}

impl Check for C10 {
    fn id(&self) -> &'static str {
        "C10"
    }
    fn plan(&self, tier: Tier) -> Plan {
        let mut p = Plan::new(393 + tier.pick(600_000, 60_000_000), tier.pick(35.0, 480.0));
        p.mandatory = 393;
        p.cpu_budget_s = 120.0;
        p
    }
    fn run_case(&self, tier: Tier, k: u64, rng: &mut Rng, out: &mut Out) {
        let _cg = ClockGuard;
        if k < 196 {
            let l = Self::enum_len(tier);
            let a = (k / 14) as usize;
            let b = (k % 14) as usize;
            let rest = l - 2;
            let total = 14usize.pow(rest as u32);
            let mut n = 0u64;
            for code in 0..total {
                let mut seq = vec![ENUM_ALPHABET[a], ENUM_ALPHABET[b]];
                let mut c = code;
                for _ in 0..rest {
                    seq.push(ENUM_ALPHABET[c % 14]);
                    c /= 14;
                }
                let mut it = |i: usize, _m: &Model, _r: &mut Rng| seq.get(i).cloned();
                if !run_history(&mut it, rng, out) {
                    return;
                }
                n += 1;
            }
            out.count("enumerated_sequences", n);
            return;
        }
        if k < 392 {
            let l = Self::enum_len(tier);
            let k = k - 196;
            let a = (k / 14) as usize;
            let b = (k % 14) as usize;
            let rest = l - 2;
            let total = 14usize.pow(rest as u32);
            let mut n = 0u64;
            for code in 0..total {
                let mut seq: Vec<Sym> = PREFIX_B.to_vec();
                seq.push(ENUM_ALPHABET_B[a]);
                seq.push(ENUM_ALPHABET_B[b]);
                let mut c = code;
                for _ in 0..rest {
                    seq.push(ENUM_ALPHABET_B[c % 14]);
                    c /= 14;
                }
                let mut it = |i: usize, _m: &Model, _r: &mut Rng| seq.get(i).cloned();
                if !run_history(&mut it, rng, out) {
                    return;
                }
                n += 1;
            }
            out.count("enumerated_sequences_after_connect", n);
            return;
        }
        if k == 392 {
            // a request refused because its argument cannot be expressed leaves nothing behind: an
            // answer carrying the id it would have got is an answer to an unknown transaction, and
            // the workflow goes on as if the call had never been made
            let nx = TxSel::NextUnissued;
            let follows = [Sym::Result(nx, 1), Sym::Result(nx, 0), Sym::Result(nx, 2), Sym::Error(nx)];
            let prefixes: [&[Sym]; 4] = [
                &[],
                &[Sym::RequestConnection, Sym::Error(TxSel::Connect)],
                &[Sym::RequestConnectionUnexpressible],
                &[Sym::RequestConnection, Sym::Error(TxSel::Connect), Sym::RequestConnectionUnexpressible, Sym::Result(nx, 1)],
            ];
            let tail = [
                Sym::RequestConnection,
                Sym::Result(TxSel::Connect, 1),
                Sym::RequestPlayback,
                Sym::Result(TxSel::Create, 0),
                Sym::StatusPlayStart,
                Sym::Video(MsidSel::Active),
                Sym::StopPlayback,
                Sym::RequestPublishing,
                Sym::Result(TxSel::Create, 0),
                Sym::StatusPublishStart,
                Sym::PublishVideo,
            ];
            let mut n = 0u64;
            for _rep in 0..6 {
                for pre in prefixes.iter() {
                    for f in follows.iter() {
                        for cut in [0usize, 2, tail.len()] {
                            let mut seq: Vec<Sym> = pre.to_vec();
                            seq.push(Sym::RequestConnectionUnexpressible);
                            seq.push(*f);
                            seq.extend_from_slice(&tail[..cut]);
                            if cut == 2 {
                                // once more from the connected state (refused for its state) and after it
                                seq.push(Sym::RequestConnectionUnexpressible);
                                seq.push(*f);
                                seq.extend_from_slice(&tail[2..]);
                            }
                            let mut it = |i: usize, _m: &Model, _r: &mut Rng| seq.get(i).cloned();
                            if !run_history(&mut it, rng, out) {
                                return;
                            }
                            n += 1;
                        }
                    }
                }
            }
            out.count("histories_with_a_request_refused_for_its_argument", n);
            return;
        }
        let len = match rng.below(40) {
            0 => rng.usize(200, 400), // long histories: state left over from much earlier
            1..=9 => rng.usize(5, 12),
            10..=19 => rng.usize(40, 80),
            _ => rng.usize(10, 40),
        };
        // "many of the same" mode: one symbol repeated 129..1100 times (tables with a cap, counters
        // with a limit), then the oldest createStream is answered and the walk goes on
        let burst: Option<(usize, usize, Sym)> = if rng.chance(1, 60) {
            // (1 burst in 60: more than 65,536 repetitions)
            let n = if rng.chance(1, 60) { *rng.pick(&[65_537usize, 66_000]) } else { *rng.pick(&[129usize, 130, 200, 257, 300, 1025, 1100]) };
            let sym = *rng.pick(&[Sym::RequestPlayback, Sym::RequestPublishing, Sym::RequestPlayback, Sym::Ping, Sym::SendPing, Sym::Result(TxSel::Unknown, 0), Sym::Audio(MsidSel::Active)]);
            Some((rng.usize(2, 8), n, sym))
        } else {
            None
        };
        let total = len + burst.map(|b| b.1).unwrap_or(0);
        let mut it = |i: usize, m: &Model, r: &mut Rng| {
            if i >= total {
                return None;
            }
            if let Some((at, n, sym)) = burst {
                if i < 2 {
                    return Some(PREFIX_B[i]);
                }
                if i >= at && i < at + n {
                    return Some(sym);
                }
                if i == at + n {
                    return Some(Sym::Result(TxSel::Create, 0));
                }
            }
            Some(random_sym(r, m))
        };
        if burst.is_some() {
            out.count("walks_with_a_burst_of_one_symbol", 1);
        }
        run_history(&mut it, rng, out);
    }
    fn rule(&self) -> String {
        "histories over application calls {request_connection, request_playback, request_publishing, stop_playback, stop_publishing, publish_metadata/video/audio, send_ping_request} and server messages encoded by the independent encoder {_result / _error with the current connect, the current createStream, an already answered, a never issued, 0, 2^32-1, an outstanding id plus or minus a fraction, plus 2^32, negated, and NaN as transaction id, with / without / with a non-numeric stream id; onStatus Play.Start, Publish.Start, unknown codes, missing/ill-typed arguments; audio/video/onMetaData on the active stream, another stream, stream 0; ping request/response, acknowledgement, stream begin, set chunk size}. Random walks of 5-80 steps (1 in 40 of 200-400; 1 in 60 with a burst of 129-1100 (1 in 60 of them: 65,537 or 66,000) repetitions of one symbol after connect, then an answer to the oldest createStream; one third of the steps biased towards progress, the rest uniform: duplicates, out-of-order and stale answers), plus all sequences of length 5 (thorough 6) over a 14-symbol reduced alphabet, and all sequences of the same length over a second 14-symbol alphabet (answers to createStream: current, stale, unknown, refused; both activities; media on the active and another stream) run after the fixed prefix request_connection, connect result. One connect request in 10 carries an application name AMF0 cannot express (65,536-131,072 bytes): refused without bytes, and judged from then on as if never made; answers are also drawn with the id one above every id seen so far (the id such a request would have consumed); mandatory case 392: 288 fixed histories around such refusals. Start and unknown statuses come with information objects of six shapes (level status/error/warning/number/absent, three or seven properties): the code decides. After every step events, decoded emitted commands/media/pings, emitted byte count and Ok/Err are compared with model::client. distinct = hash of the (model state class, symbol) sequence.".to_string()
    }
    fn assumptions(&self) -> Vec<String> {
        vec![
            "'connected and idle' = ClientState::Connected; a second request while a createStream is outstanding is permitted (DESIGN section 5)".to_string(),
            "media events = audio and video; metadata is checked against the active-stream gate only".to_string(),
            "transaction ids in server answers are integers; media received outside playback may be refused with an error or ignored".to_string(),
            "a late connect result after leaving Disconnected and a createStream result while not idle mirror today's behaviour (counted as corners)".to_string(),
        ]
    }
    fn required_counters(&self, _tier: Tier) -> Vec<String> {
        let mut v = vec!["histories_agreeing".to_string(), "enumerated_sequences".into(), "enumerated_sequences_after_connect".into(), "histories_ended_by_expected_session_error".into(), "walks_with_a_burst_of_one_symbol".into()];
        for s in ["Disconnected", "Connected", "PlayRequested", "Playing", "PublishRequested", "Publishing"] {
            v.push(format!("final_state_{}", s));
        }
        v
    }
    fn exhaustive_part(&self, tier: Tier) -> Option<String> {
        Some(format!("all 14^{} operation sequences of length {} over each of two reduced alphabets (the second after a connecting prefix)", Self::enum_len(tier), Self::enum_len(tier)))
    }
}
