//! C03 - no network input can panic, overflow, hang or exhaust memory.
//! Process-level monitors (panic hook, overflow-checks build, counting allocator, CPU watchdog,
//! worker exit status) over hostile generated inputs, in every session state class.

use super::c02::ClockGuard;
use super::c11::FillGuard;
use super::foreign::{self, ForeignCfg};
use super::sessprep::{self, ClientRig, ServerRig, CLIENT_STATES, SERVER_STATES};
use crate::alloc;
use crate::fw::{lib_call, Check, Out, Plan, Tier};
use crate::refs::amf::{self, GenCfg, V};
use crate::refs::chunk::{basic_header, CsidForm, Encoder, Msg};
use crate::refs::msg::{self, RMsg};
use crate::rng::{hex_short, mix, partition_any, Rng};
use bytes::Bytes;
use rml_rtmp::chunk_io::ChunkDeserializer;
use rml_rtmp::handshake::{Handshake, PeerType};
use rml_rtmp::messages::{MessagePayload, RtmpMessage};
use rml_rtmp::sessions::{PublishRequestType, StreamMetadata};
use rml_rtmp::time::RtmpTimestamp;
use serde_json::{json, Value};

pub struct C03;

const GENERATORS: [&str; 6] = ["random-bytes", "wellformed-chunks-arbitrary-bodies", "protocol-commands-arbitrary-arguments", "chunk-level-hostility", "mutated-valid-stream", "valid-foreign-stream"];

// ---------------------------------------------------------------------------------------------
// input generators

fn arbitrary_body(rng: &mut Rng, type_id: u8) -> Vec<u8> {
    let cfg = GenCfg { max_depth: 3, max_children: 4, inexpressible: false, long_strings: false };
    match rng.below(9) {
        0 => vec![],
        1 => {
            let n = rng.usize(1, 3);
            rng.bytes(n)
        }
        2 => {
            let n = rng.usize(0, 300);
            rng.bytes(n)
        }
        3 | 4 => {
            // a valid body for that type (or for a command when the type has no defined body)
            let m = loop {
                let m = msg::gen_msg(rng, 200);
                if m.type_id() == type_id || !msg::KNOWN_TYPE_IDS.contains(&type_id) || rng.chance(1, 20) {
                    break m;
                }
            };
            let mut b = m.body();
            if rng.coin() && !b.is_empty() {
                let c = rng.usize(0, b.len() - 1);
                b.truncate(c);
            }
            b
        }
        5 => {
            // AMF0 with the wrong arity / types for a command
            let vs: Vec<V> = (0..rng.usize(0, 4)).map(|_| amf::gen_value(rng, &cfg, 0)).collect();
            amf::encode(&vs)
        }
        6 => {
            // nested AMF0 up to depth 32 (bounded here; unbounded nesting is C14)
            let depth = rng.usize(1, 32);
            let mut v = if rng.coin() { amf::s("x") } else { V::Null };
            for i in 0..depth {
                v = if (i + rng.usize(0, 1)) % 2 == 0 { V::Arr(vec![v]) } else { V::Obj(vec![("k".to_string(), v)]) };
            }
            let mut b = amf::encode(&[amf::s("connect"), amf::num(1.0), v]);
            if rng.chance(1, 3) {
                let c = rng.usize(0, b.len());
                b.truncate(c);
            }
            b
        }
        7 if rng.chance(1, 3) => {
            // many complete values whose declared count promises far more than is there: any
            // allocation sized by the declared count shows up multiplied
            let unit: &[u8] = match rng.below(4) {
                0 => &[0x0A, 0xFF, 0xFF, 0xFF, 0xFF, 0x09],
                1 => &[0x0A, 0x00, 0x10, 0x00, 0x00, 0x09],
                2 => &[0x08, 0xFF, 0xFF, 0xFF, 0xFF, 0x00, 0x00, 0x09],
                _ => &[0x0A, 0x7F, 0xFF, 0xFF, 0xFF, 0x09],
            };
            let n = rng.usize(500, 3000);
            let mut b = Vec::with_capacity(unit.len() * n + 32);
            if rng.coin() {
                b.extend(amf::encode(&[amf::s("onStatus"), amf::num(0.0), V::Null]));
            }
            if rng.coin() {
                b.extend_from_slice(&[0x0A]);
                b.extend_from_slice(&(n as u32).to_be_bytes());
            }
            for _ in 0..n {
                b.extend_from_slice(unit);
            }
            b
        }
        8 if rng.chance(1, 6) => {
            // a long run of one byte value (every AMF0 marker, 0xFF): anything that costs a stack
            // frame or an allocation per byte shows at this length (deep *nesting* is C14's)
            let b = if rng.chance(1, 8) { 0xFF } else { rng.below(0x13) as u8 };
            let n = *rng.pick(&[2_000usize, 20_000, 20_000, 200_000, 200_000, 1_000_000]);
            let mut v = Vec::with_capacity(n + 32);
            match rng.below(4) {
                0 => v.extend(amf::encode(&[amf::s(*rng.pick(&COMMANDS)), amf::num(1.0)])),
                1 => v.extend(amf::encode(&[amf::s("@setDataFrame"), amf::s("onMetaData")])),
                2 => v.extend_from_slice(&[0x03, 0x00, 0x01, b'a']),
                _ => {}
            }
            v.resize(v.len() + n, b);
            v
        }
        7 => {
            // declared lengths / counts with nothing behind
            match rng.below(4) {
                0 => vec![0x02, 0xFF, 0xFF],
                1 => vec![0x0A, 0xFF, 0xFF, 0xFF, 0xFF, 0x05],
                2 => vec![0x08, 0xFF, 0xFF, 0xFF, 0xFF],
                _ => vec![0x03, 0xFF, 0xFF, b'a'],
            }
        }
        _ => {
            let mut b = msg::gen_msg(rng, 100).body();
            for _ in 0..rng.usize(1, 4) {
                if b.is_empty() {
                    break;
                }
                let at = rng.usize(0, b.len() - 1);
                b[at] = rng.u8();
            }
            b
        }
    }
}

const COMMANDS: [&str; 17] = [
    "connect", "createStream", "publish", "play", "closeStream", "deleteStream", "releaseStream", "FCPublish", "FCUnpublish", "_result", "_error", "onStatus", "onBWDone", "getStreamLength", "pause",
    "", "\u{0}weird",
];

fn arbitrary_arg(rng: &mut Rng) -> V {
    let cfg = GenCfg { max_depth: 2, max_children: 3, inexpressible: false, long_strings: false };
    match rng.below(14) {
        0 => amf::num(f64::NAN),
        1 => amf::num(-1.0),
        2 => amf::num(1e300),
        3 => amf::num(4294967296.0),
        4 => amf::num(rng.below(8) as f64),
        5 => amf::num(1.5),
        6 => amf::s("key"),
        7 => amf::s(*rng.pick(&["live", "record", "append", "LIVE", "", "bogus"])),
        8 => V::Null,
        9 => V::Bool(rng.coin()),
        10 => amf::obj(vec![("app", if rng.coin() { amf::s("live/") } else { amf::num(3.0) }), ("objectEncoding", if rng.coin() { amf::num(3.0) } else { amf::s("x") })]),
        11 => amf::obj(vec![("code", if rng.coin() { amf::s(*rng.pick(&["NetStream.Play.Start", "NetStream.Publish.Start", "NetStream.Play.Reset", "x"])) } else { amf::num(1.0) }), ("description", amf::s("d"))]),
        12 => amf::num(-2.0),
        _ => amf::gen_value(rng, &cfg, 0),
    }
}

fn arbitrary_command(rng: &mut Rng, stream_hint: u32) -> (RMsg, u32) {
    let msid = *rng.pick(&[0u32, stream_hint, stream_hint, 1, 2, 0xFFFF_FFFF]);
    if rng.chance(1, 4) {
        // data messages
        let vs: Vec<V> = match rng.below(10) {
            0 => vec![],
            1 => vec![amf::s("@setDataFrame")],
            2 => vec![amf::s("@setDataFrame"), amf::s("onMetaData")],
            3 => vec![
                amf::s("@setDataFrame"),
                amf::s("onMetaData"),
                if rng.coin() {
                    amf::obj(vec![("width", amf::num(1920.0)), ("stereo", V::Bool(true)), ("encoder", amf::s("e"))])
                } else {
                    // every known key with the wrong type, and out-of-range numbers
                    amf::obj(vec![
                        ("width", amf::s("wide")), ("height", V::Null), ("videocodecid", V::Bool(true)), ("videodatarate", amf::s("x")), ("framerate", amf::s("30")),
                        ("audiocodecid", V::Null), ("audiodatarate", V::Undef), ("audiosamplerate", amf::s("44100")), ("audiochannels", V::Bool(false)),
                        ("stereo", amf::num(1.0)), ("encoder", amf::num(f64::NAN)), ("duration", amf::num(-1e300)),
                    ])
                },
            ],
            4 if rng.chance(3, 4) => {
                // each known metadata key (and some others) with a value of an arbitrary type:
                // numbers of every kind, strings of 0-5 characters (ASCII and not), containers
                const KEYS: [&str; 16] = ["width", "height", "videocodecid", "videodatarate", "framerate", "audiocodecid", "audiodatarate", "audiosamplerate", "audiosamplesize", "audiochannels", "stereo", "encoder", "duration", "filesize", "title", "keyframes"];
                let mut props: Vec<(&str, V)> = Vec::new();
                for k in KEYS.iter() {
                    if rng.chance(1, 3) {
                        continue;
                    }
                    let v = match rng.below(10) {
                        0 => amf::s(""),
                        1 => amf::s(*rng.pick(&["a", "é", "av", "avc", "avc1", "mp4a", "中", "😀", ".", "44100"])),
                        2 => amf::num(*rng.pick(&[0.0, -1.0, 7.0, 10.0, 1e300, -1e300, f64::NAN, f64::INFINITY, 4294967296.0, 0.5])),
                        3 => V::Bool(rng.coin()),
                        4 => V::Null,
                        5 => V::Undef,
                        6 => V::Arr(vec![]),
                        7 => amf::obj(vec![]),
                        _ => arbitrary_arg(rng),
                    };
                    props.push((*k, v));
                }
                let head = if rng.coin() { vec![amf::s("@setDataFrame"), amf::s("onMetaData")] } else { vec![amf::s("onMetaData")] };
                let mut vs = head;
                vs.push(amf::obj(props));
                vs
            }
            4 => vec![amf::s("@setDataFrame"), amf::num(5.0)],
            5 => vec![amf::s("@setDataFrame"), amf::s("onMetaData"), arbitrary_arg(rng)],
            6 => vec![amf::s("onMetaData")],
            7 => vec![amf::s("onMetaData"), amf::obj(vec![("width", amf::s("wide")), ("framerate", amf::num(f64::NAN)), ("height", amf::num(-1.0)), ("audiochannels", amf::num(1e300))])],
            8 => vec![amf::s("onMetaData"), arbitrary_arg(rng), arbitrary_arg(rng)],
            _ => (0..rng.usize(0, 4)).map(|_| arbitrary_arg(rng)).collect(),
        };
        return (RMsg::Data(vs), msid);
    }
    if rng.chance(1, 60) {
        // names at the edge of what an AMF0 string can carry, built from multi-byte characters
        // (so any byte-offset arithmetic on them lands inside a character)
        let unit = *rng.pick(&["é", "中", "😀", "a"]);
        let target = 65535 - rng.usize(0, 40);
        let mut name = unit.repeat(target / unit.len());
        while name.len() < target && rng.coin() {
            name.push('x');
        }
        return match rng.below(3) {
            0 => (sessprep::command("connect", 1.0, amf::obj(vec![("app", V::Str(name)), ("objectEncoding", amf::num(0.0))]), vec![]), 0),
            1 => (sessprep::command("publish", 0.0, V::Null, vec![V::Str(name), amf::s("live")]), msid),
            _ => (sessprep::command("play", 0.0, V::Null, vec![V::Str(name)]), msid),
        };
    }
    if rng.chance(1, 12) {
        // connect with the properties clients send, each present or not and of any type; URL-like
        // strings in every state of decay
        const URLS: [&str; 14] = ["", "rtmp://example.com", "example", "rtmp://h/app", "rtmp://h/app/inst?x=1", ":", "/", "//", "rtmp://", "rtmp:///", "http://h:1935/a/b/c", "rtmp://h/\u{e9}", "a/b", "?"];
        let mut props: Vec<(&str, V)> = Vec::new();
        for k in ["app", "flashVer", "swfUrl", "tcUrl", "fpad", "capabilities", "audioCodecs", "videoCodecs", "videoFunction", "pageUrl", "objectEncoding", "type"] {
            if rng.chance(2, 5) {
                continue;
            }
            let v = match rng.below(8) {
                0 | 1 | 2 => amf::s(*rng.pick(&URLS)),
                3 => amf::num(*rng.pick(&[0.0, 3.0, 239.0, -1.0, 1e300, f64::NAN])),
                4 => V::Bool(rng.coin()),
                5 => V::Null,
                6 => amf::s("live"),
                _ => arbitrary_arg(rng),
            };
            props.push((k, v));
        }
        return (sessprep::command("connect", 1.0, amf::obj(props), vec![]), 0);
    }
    let name = *rng.pick(&COMMANDS);
    let txid = match rng.below(7) {
        0 => f64::NAN,
        1 => -1.0,
        2 => 1e300,
        3 => 0.0,
        4 => 1.5,
        _ => rng.below(6) as f64,
    };
    let obj = match rng.below(4) {
        0 => V::Null,
        1 => arbitrary_arg(rng),
        _ => amf::obj(vec![("app", amf::s("live")), ("objectEncoding", amf::num(0.0))]),
    };
    let args: Vec<V> = (0..rng.usize(0, 5)).map(|_| arbitrary_arg(rng)).collect();
    (sessprep::command(name, txid, obj, args), msid)
}

/// raw chunk from explicit header fields (nothing checked: this is the hostile sender)
fn raw_chunk(fmt: u8, csid: u32, field: u32, ext: Option<u32>, len: u32, type_id: u8, msid: u32, payload: &[u8]) -> Vec<u8> {
    let mut b = Vec::new();
    basic_header(fmt, csid.clamp(2, 65599), CsidForm::Min, &mut b);
    let put24 = |v: u32, b: &mut Vec<u8>| {
        b.push((v >> 16) as u8);
        b.push((v >> 8) as u8);
        b.push(v as u8);
    };
    if fmt <= 2 {
        put24(field & 0xFFFFFF, &mut b);
    }
    if fmt <= 1 {
        put24(len & 0xFFFFFF, &mut b);
        b.push(type_id);
    }
    if fmt == 0 {
        b.extend_from_slice(&msid.to_le_bytes());
    }
    if let Some(e) = ext {
        b.extend_from_slice(&e.to_be_bytes());
    }
    b.extend_from_slice(payload);
    b
}

fn hostile_chunks(rng: &mut Rng, chunk_size: usize) -> Vec<u8> {
    let mut out = Vec::new();
    let n = rng.usize(1, 25);
    let mut csid = *rng.pick(&[2u32, 3, 4, 64, 320, 65599]);
    let mut last_len: u32 = 0;
    for _ in 0..n {
        if rng.chance(1, 3) {
            csid = if rng.chance(1, 4) { rng.range(2, 65599) as u32 } else { *rng.pick(&[2u32, 3, 4, 5, 64, 320, 65599]) };
        }
        match rng.below(12) {
            0 => {
                // a message announced long, first chunk only, then a header on the same csid announcing less
                let l1 = rng.range(chunk_size as u64 + 1, (chunk_size as u64 + 1) * 3) as u32;
                let p = rng.bytes(chunk_size.min(4096));
                out.extend(raw_chunk(0, csid, 5, None, l1, 9, 1, &p));
                let l2 = rng.below(p.len() as u64 + 1) as u32;
                let f = rng.below(3) as u8;
                let q = rng.bytes((l2 as usize).min(chunk_size));
                out.extend(raw_chunk(f.min(1), csid, 7, None, l2, 9, 1, &q));
                last_len = l2;
            }
            1 => {
                // delta header with extended timestamp below 0xFFFFFF
                let p = rng.bytes(3);
                out.extend(raw_chunk(0, csid, 100, None, 3, 8, 1, &p));
                let f = 1 + rng.below(3) as u8;
                let e = *rng.pick(&[0u32, 1, 0xFFFFFE, 5000]);
                if f == 3 {
                    // make the predecessor carry an extended timestamp first
                    out.extend(raw_chunk(0, csid, 0xFFFFFF, Some(0x1000000), 3, 8, 1, &p));
                }
                out.extend(raw_chunk(f, csid, 0xFFFFFF, Some(e), 3, 8, 1, &p));
            }
            2 => {
                // compressed header on an unseen csid
                let c = rng.range(2, 65599) as u32;
                out.extend(raw_chunk(1 + rng.below(3) as u8, c, 1, None, 2, 8, 1, &[1, 2]));
            }
            3 => {
                // chunk size announcements with hostile values
                let v = *rng.pick(&[0u32, 1, 2, 0x7FFF_FFFF, 0x8000_0000, 0xFFFF_FFFF, 0x8000_0001]);
                out.extend(raw_chunk(0, 2, 0, None, 4, 1, 0, &v.to_be_bytes()));
            }
            4 => {
                // abort, acknowledgement, window, bandwidth with odd bodies
                let t = *rng.pick(&[2u8, 3, 5, 6, 4]);
                let l = rng.usize(0, 7);
                let p = rng.bytes(l);
                out.extend(raw_chunk(0, 2, 0, None, l as u32, t, 0, &p));
            }
            5 => {
                // zero-length messages of every kind
                out.extend(raw_chunk(0, csid, rng.u32() & 0xFFFFFF, None, 0, rng.u8(), rng.u32_boundary(), &[]));
            }
            6 => {
                // 16 MiB announced, few bytes behind
                let p = { let n = if rng.coin() { chunk_size.min(70_000) } else { rng.usize(0, 64).min(chunk_size) }; rng.bytes(n) };
                out.extend(raw_chunk(0, csid, 0, None, 0xFFFFFF, *rng.pick(&[9u8, 20, 18, 1]), 0, &p));
            }
            7 => {
                // many distinct csids each opening a message
                for _ in 0..rng.usize(10, 400) {
                    let c = rng.range(2, 65599) as u32;
                    out.extend(raw_chunk(0, c, 1, None, 5, 8, 1, &[1]));
                }
            }
            8 => {
                // a type 3 chunk for whatever is pending, with or without an extended timestamp
                let p = rng.bytes_in(0, 8);
                let e = if rng.coin() { Some(rng.u32_boundary()) } else { None };
                out.extend(raw_chunk(3, csid, 0, e, 0, 0, 0, &p));
            }
            9 => {
                // arbitrary header fields
                let f = rng.below(4) as u8;
                let field = *rng.pick(&[0u32, 1, 0xFFFFFE, 0xFFFFFF]);
                let ext = if field == 0xFFFFFF || rng.chance(1, 8) { Some(rng.u32_boundary()) } else { None };
                let l = *rng.pick(&[0u32, 1, last_len, last_len.wrapping_sub(1) & 0xFFFFFF, chunk_size as u32, chunk_size as u32 + 1, 0xFFFFFF]);
                let p = rng.bytes((l as usize).min(chunk_size).min(2048));
                out.extend(raw_chunk(f, csid, field, ext, l, rng.u8(), rng.u32_boundary(), &p));
                last_len = l;
            }
            10 => {
                // a valid small message (keeps the stream alive between hostile pieces)
                let m = msg::gen_msg(rng, 60);
                let b = m.body();
                if b.len() <= chunk_size {
                    out.extend(raw_chunk(0, csid, 0, None, b.len() as u32, m.type_id(), 0, &b));
                }
            }
            _ => {
                let n = rng.usize(1, 20);
                out.extend(rng.bytes(n));
            }
        }
    }
    out
}

fn mutate(rng: &mut Rng, mut b: Vec<u8>) -> Vec<u8> {
    for _ in 0..rng.usize(1, 6) {
        if b.is_empty() {
            b.push(rng.u8());
            continue;
        }
        let at = rng.usize(0, b.len() - 1);
        match rng.below(6) {
            0 => b[at] ^= 1 << rng.below(8),
            1 => b[at] = rng.u8(),
            2 => {
                b.truncate(at);
            }
            3 => {
                b.insert(at, rng.u8());
            }
            4 => {
                b.remove(at);
            }
            _ => {
                let n = rng.usize(1, 40).min(b.len() - at);
                let dup: Vec<u8> = b[at..at + n].to_vec();
                for (i, x) in dup.into_iter().enumerate() {
                    b.insert(at + i, x);
                }
            }
        }
    }
    b
}

/// bytes for a chunk-stream target; `enc` continues the peer-side encoder state of the prefix
fn gen_stream(gen: usize, rng: &mut Rng, enc: &mut Encoder, stream_hint: u32) -> Vec<u8> {
    match gen {
        0 => {
            let n = match rng.below(4) {
                0 => rng.usize(0, 16),
                1 => rng.usize(0, 400),
                _ => rng.usize(0, 5000),
            };
            let mut b = rng.bytes(n);
            if rng.coin() && !b.is_empty() {
                // a valid basic header up front so parsing gets past the first stage
                b[0] = (b[0] & 0xC0) | *rng.pick(&[2u8, 3, 4, 0, 1]);
            }
            b
        }
        1 => {
            let mut out = Vec::new();
            for _ in 0..rng.usize(1, 12) {
                let t = if rng.chance(1, 3) { rng.u8() } else { *rng.pick(&[20u8, 18, 17, 15, 4, 1, 2, 3, 5, 6, 8, 9]) };
                let body = arbitrary_body(rng, t);
                let m = Msg { type_id: t, msid: *rng.pick(&[0u32, stream_hint, 1, 9]), ts: rng.u32_boundary(), data: body };
                let csid = sessprep::usual_csid(t);
                out.extend(enc.encode_simple(&m, csid));
                if t == 1 && m.data.len() >= 4 {
                    // a conformant sender would now use the size it announced
                    let v = u32::from_be_bytes([m.data[0], m.data[1], m.data[2], m.data[3]]) & 0x7FFF_FFFF;
                    if v >= 1 {
                        enc.chunk_size = v as usize;
                    }
                }
            }
            out
        }
        2 => {
            let mut out = Vec::new();
            for _ in 0..rng.usize(1, 10) {
                let (m, msid) = arbitrary_command(rng, stream_hint);
                // occasionally flagged as AMF3 (types 17/15)
                let mut msg = Msg { type_id: m.type_id(), msid, ts: rng.u32_boundary(), data: m.body() };
                if rng.chance(1, 8) {
                    if msg.type_id == 20 {
                        msg.type_id = 17;
                        if rng.coin() {
                            msg.data.insert(0, 0);
                        }
                    } else if msg.type_id == 18 {
                        msg.type_id = 15;
                    }
                }
                out.extend(enc.encode_simple(&msg, sessprep::usual_csid(msg.type_id)));
                if rng.chance(1, 6) {
                    let media = Msg { type_id: if rng.coin() { 8 } else { 9 }, msid, ts: rng.u32_boundary(), data: rng.bytes_in(0, 300) };
                    out.extend(enc.encode_simple(&media, sessprep::usual_csid(media.type_id)));
                }
            }
            out
        }
        3 => hostile_chunks(rng, enc.chunk_size),
        6 | 8 => {
            // more than 1024 tiny valid messages in one stream (loops with a bound per call); 8: 10-200
            let n = if gen == 8 { rng.usize(10, 200) } else if rng.chance(1, 25) { *rng.pick(&[65_537usize, 70_000]) } else { *rng.pick(&[1025usize, 1026, 1030, 1100, 2049, 2100]) };
            let mut out = Vec::new();
            let mut ts = rng.u32() % 1000;
            // half of these streams open with a small acknowledgement window, so that the session's
            // acknowledgements fall between its answers
            if rng.coin() {
                let w = *rng.pick(&[35u32, 100, 1000, 5000]);
                out.extend(enc.encode_simple(&Msg { type_id: 5, msid: 0, ts: 0, data: w.to_be_bytes().to_vec() }, 2));
            }
            for i in 0..n {
                ts = ts.wrapping_add(rng.below(30) as u32);
                let m = match (i + rng.usize(0, 1)) % 4 {
                    0 => Msg { type_id: 8, msid: stream_hint, ts, data: rng.bytes_in(0, 3) },
                    1 => Msg { type_id: 9, msid: stream_hint, ts, data: rng.bytes_in(0, 3) },
                    2 => Msg { type_id: 4, msid: 0, ts, data: { let mut d = vec![0u8, 6]; d.extend_from_slice(&((i as u32) / 8).to_be_bytes()); d } },
                    _ => Msg { type_id: 3, msid: 0, ts, data: (i as u32).to_be_bytes().to_vec() },
                };
                let c = enc.random_choice(rng, sessprep::usual_csid(m.type_id), &m, true, false);
                for ch in enc.encode(&m, &c) {
                    out.extend(ch);
                }
            }
            out
        }
        9 => {
            // workflow traffic a server sends a client: answers to transactions 1-4 naming streams
            // 5 and 6, start statuses and media on those streams, in any order (what one input call
            // may carry is the transport's business)
            let mut out = Vec::new();
            for _ in 0..rng.usize(3, 9) {
                let sid = *rng.pick(&[5u32, 6, 5, stream_hint]);
                let (m, msid): (RMsg, u32) = match rng.below(7) {
                    0 | 1 => (sessprep::command("_result", rng.usize(1, 4) as f64, V::Null, vec![amf::num(*rng.pick(&[5.0, 6.0]))]), 0),
                    2 => (sessprep::command("onStatus", 0.0, V::Null, vec![sessprep::status_obj("status", *rng.pick(&["NetStream.Play.Start", "NetStream.Publish.Start"]), "d")]), sid),
                    3 | 4 => (RMsg::Audio(rng.bytes_in(0, 20)), sid),
                    5 => (RMsg::Video(rng.bytes_in(0, 20)), sid),
                    _ => (RMsg::Data(vec![amf::s("onMetaData"), amf::obj(vec![("width", amf::num(320.0))])]), sid),
                };
                let msg = Msg { type_id: m.type_id(), msid, ts: rng.below(1000) as u32, data: m.body() };
                out.extend(enc.encode_simple(&msg, sessprep::usual_csid(msg.type_id)));
            }
            out
        }
        10 => {
            // workflow traffic a client sends a server on one stream: media, metadata, closeStream,
            // deleteStream, publish / play again, in any order
            let mut out = Vec::new();
            for _ in 0..rng.usize(3, 9) {
                let sid = *rng.pick(&[stream_hint, stream_hint, 1, 2]);
                let (m, msid): (RMsg, u32) = match rng.below(9) {
                    0 | 1 => (RMsg::Video(rng.bytes_in(0, 20)), sid),
                    2 => (RMsg::Audio(rng.bytes_in(0, 20)), sid),
                    3 => (sessprep::command("closeStream", 0.0, V::Null, vec![amf::num(sid as f64)]), sid),
                    4 => (sessprep::command("deleteStream", 0.0, V::Null, vec![amf::num(sid as f64)]), 0),
                    5 => (sessprep::command("publish", 0.0, V::Null, vec![amf::s("key"), amf::s("live")]), sid),
                    6 => (sessprep::command("play", 0.0, V::Null, vec![amf::s("key")]), sid),
                    7 => (sessprep::command("createStream", rng.usize(2, 9) as f64, V::Null, vec![]), 0),
                    _ => (RMsg::Data(vec![amf::s("@setDataFrame"), amf::s("onMetaData"), amf::obj(vec![("width", amf::num(320.0))])]), sid),
                };
                let msg = Msg { type_id: m.type_id(), msid, ts: rng.below(1000) as u32, data: m.body() };
                out.extend(enc.encode_simple(&msg, sessprep::usual_csid(msg.type_id)));
            }
            out
        }
        7 => {
            // one message cut into more than 65,536 chunks after an in-band SetChunkSize(1|2)
            let cs = *rng.pick(&[1u32, 1, 2]);
            let mut out = enc.encode_simple(&crate::refs::chunk::set_chunk_size_msg(cs, 0), 2);
            enc.chunk_size = cs as usize;
            let len = cs as usize * 65_536 + *rng.pick(&[0usize, 1, 1, 5000]);
            let t = *rng.pick(&[8u8, 9, 22]);
            let m = Msg { type_id: t, msid: if t == 22 { 0 } else { stream_hint }, ts: 5, data: (0..len).map(|i| (i >> 2) as u8 ^ i as u8).collect() };
            out.extend(enc.encode_simple(&m, sessprep::usual_csid(t)));
            let ping = Msg { type_id: 4, msid: 0, ts: 6, data: vec![0, 6, 0, 0, 0, 9] };
            out.extend(enc.encode_simple(&ping, 2));
            out
        }
        4 | _ => {
            let cfg = ForeignCfg { max_msgs: 10, max_len: 2000, max_chunks: 200, scs_pct: 10, nonminimal_ok: true, many_one_in: 0 };
            let f = foreign::gen_foreign(rng, &cfg);
            let mut w = f.wire();
            if gen == 4 {
                w = mutate(rng, w);
            }
            w
        }
    }
}

// ---------------------------------------------------------------------------------------------
// targets

/// Signature of the recorded finding F15 (KNOWN_FINDINGS.txt): every audio / video / metadata
/// event a server session raises owns a copy of the application name and of the stream key, so a
/// peer that chose names of ~64 KiB each gets ~128 KiB allocated per message - and a zero-length
/// message with a type-3 header is one byte.  Allocation that these copies explain is reported
/// under this signature; anything beyond them under the general one.
pub const F15_SIG: &str = "per-event-copies-of-app-name-and-stream-key-exceed-the-allocation-bound";

fn names_held(rs: &[rml_rtmp::sessions::ServerSessionResult]) -> usize {
    use rml_rtmp::sessions::{ServerSessionEvent as E, ServerSessionResult as R};
    rs.iter()
        .map(|r| match r {
            R::RaisedEvent(E::AudioDataReceived { app_name, stream_key, .. }) | R::RaisedEvent(E::VideoDataReceived { app_name, stream_key, .. }) | R::RaisedEvent(E::StreamMetadataChanged { app_name, stream_key, .. }) => {
                app_name.capacity() + stream_key.capacity()
            }
            _ => 0,
        })
        .sum()
}

fn check_memory(out: &mut Out, mark: usize, fed: usize, ctx: &dyn Fn() -> Value) -> bool {
    check_memory_names(out, mark, fed, 0, ctx)
}

fn check_memory_names(out: &mut Out, mark: usize, fed: usize, names_in_one_call: usize, ctx: &dyn Fn() -> Value) -> bool {
    let peak = alloc::peak_since(mark);
    let bound = 256 * fed + (33 << 20);
    out.maxv("max_peak_alloc_bytes", peak as u64);
    if peak > bound && names_in_one_call > 0 && peak - names_in_one_call.min(peak) <= bound {
        out.violation(
            F15_SIG,
            json!({"peak_bytes": peak, "bytes_fed": fed, "bound": bound, "bytes_in_copies_of_app_name_and_stream_key_returned_by_one_call": names_in_one_call, "context": ctx()}),
        );
        return false;
    }
    if peak > bound {
        out.violation(
            "allocation-exceeds-small-multiple-of-bytes-received-plus-one-message",
            json!({"peak_bytes": peak, "bytes_fed": fed, "bound": bound, "context": ctx()}),
        );
        return false;
    }
    true
}

fn run_handshake(rng: &mut Rng, out: &mut Out, gen: usize) {
    let client = rng.coin();
    let pregen = rng.coin();
    let _fg = FillGuard;
    std::mem::forget(super::c11::install_fill(rng.next(), None));
    // inputs: random, or a valid exchange recorded from a reference-built peer then mutated
    let bytes: Vec<u8> = match gen % 3 {
        0 => {
            let n = rng.usize(0, 4000);
            let mut b = rng.bytes(n);
            if rng.chance(2, 3) && !b.is_empty() {
                b[0] = 3;
            }
            b
        }
        1 => {
            let role = if client { crate::refs::sha::Role::Server } else { crate::refs::sha::Role::Client };
            let filler = rng.bytes(1536);
            let p1 = crate::refs::sha::make_p1(role, if rng.coin() { crate::refs::sha::Scheme::At8 } else { crate::refs::sha::Scheme::At772 }, &filler);
            let mut b = vec![3u8];
            b.extend_from_slice(&p1);
            b.extend(rng.bytes(1536));
            b.extend(rng.bytes_in(0, 600));
            if rng.coin() {
                b = mutate(rng, b);
            }
            b
        }
        _ => {
            let n = rng.usize(3000, 9000);
            let mut b = vec![3u8; 1];
            b.extend(vec![0u8; n]);
            b
        }
    };
    let ctx = || json!({"target": "Handshake", "role": if client {"client"} else {"server"}, "generated_p0_p1_first": pregen, "input": hex_short(&bytes, 64), "input_len": bytes.len()});
    let mark = alloc::mark();
    let mut h = Handshake::new(if client { PeerType::Client } else { PeerType::Server });
    if pregen {
        if lib_call(out, "Handshake::generate_outbound_p0_and_p1", &ctx, || h.generate_outbound_p0_and_p1().is_ok()).is_none() {
            return;
        }
    }
    let mut pos = 0;
    let mut errors = 0;
    for n in partition_any(rng, bytes.len()) {
        let piece = &bytes[pos..pos + n];
        pos += n;
        out.count("calls_monitored", 1);
        match lib_call(out, "Handshake::process_bytes", &ctx, || h.process_bytes(piece).is_ok()) {
            None => return,
            Some(false) => {
                errors += 1;
                if errors > 3 {
                    break;
                }
            }
            Some(true) => {}
        }
    }
    out.count(if errors > 0 { "outcome_err" } else { "outcome_ok" }, 1);
    check_memory(out, mark, bytes.len() + 3100, &ctx);
}

fn run_deserializer(rng: &mut Rng, out: &mut Out, gen: usize) {
    let mut enc = Encoder::new();
    let bytes = gen_stream(gen, rng, &mut enc, 1);
    let ctx = || json!({"target": "ChunkDeserializer + MessagePayload::to_rtmp_message", "generator": GENERATORS[gen], "input": hex_short(&bytes, 300), "input_len": bytes.len()});
    let mark = alloc::mark();
    let mut d = ChunkDeserializer::new();
    let mut pos = 0;
    let mut had_err = false;
    'outer: for n in partition_any(rng, bytes.len()) {
        let piece = &bytes[pos..pos + n];
        pos += n;
        let mut input: &[u8] = piece;
        loop {
            out.count("calls_monitored", 1);
            let r = lib_call(out, "ChunkDeserializer::get_next_message", &ctx, || d.get_next_message(input).map_err(|e| format!("{:?}", e)));
            input = &[];
            match r {
                None => return,
                Some(Err(_)) => {
                    had_err = true;
                    // a real connection would be closed; keep poking a little: later calls must not panic either
                    if rng.coin() {
                        break 'outer;
                    }
                    break;
                }
                Some(Ok(None)) => break,
                Some(Ok(Some(p))) => {
                    out.count("messages_decoded", 1);
                    out.count("calls_monitored", 1);
                    let m = lib_call(out, "MessagePayload::to_rtmp_message", || json!({"type_id": p.type_id, "body": hex_short(&p.data, 200), "context": ctx()}), || p.to_rtmp_message());
                    match m {
                        None => return,
                        Some(Ok(RtmpMessage::SetChunkSize { size })) => {
                            let _ = lib_call(out, "ChunkDeserializer::set_max_chunk_size", &ctx, || d.set_max_chunk_size(size as usize).is_ok());
                        }
                        _ => {}
                    }
                }
            }
        }
    }
    out.count(if had_err { "outcome_err" } else { "outcome_ok" }, 1);
    check_memory(out, mark, bytes.len(), &ctx);
}

fn run_payload(rng: &mut Rng, out: &mut Out) {
    for _ in 0..20 {
        let t = if rng.coin() { rng.u8() } else { *rng.pick(&msg::KNOWN_TYPE_IDS) };
        let body = arbitrary_body(rng, t);
        let p = MessagePayload { timestamp: RtmpTimestamp::new(rng.u32()), type_id: t, message_stream_id: rng.u32(), data: Bytes::from(body.clone()) };
        let mark = alloc::mark();
        out.count("calls_monitored", 1);
        let ctx = || json!({"target": "MessagePayload::to_rtmp_message", "type_id": t, "body": hex_short(&body, 200)});
        match lib_call(out, "MessagePayload::to_rtmp_message", &ctx, || p.to_rtmp_message().is_ok()) {
            None => return,
            Some(ok) => out.count(if ok { "outcome_ok" } else { "outcome_err" }, 1),
        }
        if !check_memory(out, mark, body.len(), &ctx) {
            return;
        }
        // and the AMF0 decoder directly
        let mark = alloc::mark();
        out.count("calls_monitored", 1);
        if lib_call(out, "rml_amf0::deserialize", &ctx, || amf::lib_decode(&body).is_ok()).is_none() {
            return;
        }
        if !check_memory(out, mark, body.len(), &ctx) {
            return;
        }
    }
}

fn run_server(rng: &mut Rng, out: &mut Out, gen: usize, state: usize) {
    let mark = alloc::mark();
    let (mut rig, stream_id) = match sessprep::prep_server(state, rng) {
        Ok(x) => x,
        Err(e) => panic!("harness: server prefix failed: {}", e),
    };
    out.count(&format!("server_state_{}", SERVER_STATES[state]), 1);
    let mut fed = 2000usize;
    let mut names_in_one_call = 0usize;
    let rounds = rng.usize(1, 3);
    for _ in 0..rounds {
        let bytes = gen_stream(gen, rng, &mut rig.enc, stream_id);
        fed += bytes.len();
        let ctx = || json!({"target": "ServerSession", "state": SERVER_STATES[state], "generator": GENERATORS[gen], "input": hex_short(&bytes, 400), "input_len": bytes.len()});
        let mut pos = 0;
        for n in partition_any(rng, bytes.len()) {
            let piece = &bytes[pos..pos + n];
            pos += n;
            out.count("calls_monitored", 1);
            rig.tick();
            let r = lib_call(out, "ServerSession::handle_input", &ctx, || rig.s.handle_input(piece).map(|rs| names_held(&rs)).map_err(|e| format!("{:?}", e)));
            match r {
                None => return,
                Some(Err(_)) => {
                    out.count("outcome_err", 1);
                    if rng.coin() {
                        break;
                    }
                }
                Some(Ok(n)) => {
                    names_in_one_call = names_in_one_call.max(n);
                    out.count("outcome_ok", 1)
                }
            }
            // interleaved application calls with arbitrary ids
            if rng.chance(1, 6) {
                out.count("calls_monitored", 1);
                let id = rng.below(6) as u32;
                let sid = *rng.pick(&[0u32, stream_id, 1, 2, 77]);
                let which = rng.below(8);
                rig.tick();
                let r = lib_call(out, "ServerSession application call", || json!({"call": which, "id": id, "stream": sid, "context": ctx()}), || match which {
                    0 => rig.s.accept_request(id).is_ok(),
                    1 => rig.s.reject_request(id, "code", "desc").is_ok(),
                    2 => rig.s.send_metadata(sid, &StreamMetadata::new()).is_ok(),
                    3 => rig.s.send_audio_data(sid, Bytes::from(vec![1, 2, 3]), RtmpTimestamp::new(5), true).is_ok(),
                    4 => rig.s.send_video_data(sid, Bytes::new(), RtmpTimestamp::new(5), false).is_ok(),
                    5 => rig.s.send_ping_request().is_ok(),
                    6 => rig.s.finish_playing(sid).is_ok(),
                    _ => rig.s.accept_request(0).is_ok(),
                });
                if r.is_none() {
                    return;
                }
            }
        }
        if !check_memory_names(out, mark, fed, names_in_one_call, &ctx) {
            return;
        }
    }
}

/// F15 exhibited directly (case 1, always run): app name and stream key of 60,000 bytes each,
/// publish accepted, then one zero-length audio message and 10,000 one-byte type-3 headers, each
/// of which completes another zero-length message, in one input call.
fn f15_case(out: &mut Out) {
    use super::sessprep::{command, connect_cmd, first_request_id, ServerRig};
    use crate::refs::amf::{self, V};
    out.eval(1);
    let (mut rig, init) = ServerRig::new(rml_rtmp::sessions::ServerSessionConfig::new(), 1000).unwrap_or_else(|e| panic!("harness: {}", e));
    let _ = super::sessprep::decode_packets(&mut rig.dec, &init.packets);
    let app = "a".repeat(60_000);
    let key = "k".repeat(60_000);
    let mut prefix_bytes = 0usize;
    let mut step = |rig: &mut ServerRig, m: &RMsg, msid: u32| -> super::sessprep::Step<rml_rtmp::sessions::ServerSessionEvent> {
        let w = super::sessprep::wire(&mut rig.enc, m, msid, 0);
        prefix_bytes += w.len();
        rig.feed(&w).unwrap_or_else(|e| panic!("harness: F15 prefix refused: {}", e))
    };
    let st = step(&mut rig, &connect_cmd(1.0, &app), 0);
    let _ = super::sessprep::decode_packets(&mut rig.dec, &st.packets);
    let id = first_request_id(&st.events).expect("harness: no connection request");
    let acc = rig.accept(id).unwrap_or_else(|e| panic!("harness: {}", e));
    let _ = super::sessprep::decode_packets(&mut rig.dec, &acc.packets);
    let st = step(&mut rig, &command("createStream", 2.0, V::Null, vec![]), 0);
    // the stream id is whatever the session hands out
    let mut stream_id = 0u32;
    for (_, _, m) in super::sessprep::decode_packets(&mut rig.dec, &st.packets).unwrap_or_default() {
        if let RMsg::Command { name, args, .. } = m {
            if name == "_result" {
                if let Some(V::Num(b)) = args.get(0) {
                    stream_id = f64::from_bits(*b) as u32;
                }
            }
        }
    }
    assert!(stream_id != 0, "harness: createStream gave no stream id");
    let st = step(&mut rig, &command("publish", 0.0, V::Null, vec![amf::s(&key), amf::s("live")]), stream_id);
    let id = first_request_id(&st.events).expect("harness: no publish request");
    rig.accept(id).unwrap_or_else(|e| panic!("harness: {}", e));
    let mut wire = vec![0x04u8, 0, 0, 0, 0, 0, 0, 8];
    wire.extend_from_slice(&stream_id.to_le_bytes());
    wire.extend(std::iter::repeat(0xC4u8).take(10_000));
    let fed = prefix_bytes + wire.len();
    let ctx = || json!({"target": "ServerSession", "history": "connect(app of 60,000 bytes) accepted, createStream, publish(key of 60,000 bytes) accepted, then 04 000000 000000 08 01000000 followed by 10,000 x C4 in one handle_input call", "bytes_fed_in_total": fed});
    let mark = alloc::mark();
    out.count("calls_monitored", 1);
    let r = lib_call(out, "ServerSession::handle_input", &ctx, || rig.s.handle_input(&wire).map(|rs| (rs.len(), names_held(&rs))).map_err(|e| format!("{:?}", e)));
    match r {
        Some(Ok((n, names))) => {
            out.count("f15_case_messages_delivered", n as u64);
            check_memory_names(out, mark, fed, names, &ctx);
        }
        Some(Err(e)) => out.violation("session-error-on-valid-zero-length-media", json!({"error": e, "context": ctx()})),
        None => {}
    }
}

fn run_client(rng: &mut Rng, out: &mut Out, gen: usize, state: usize) {
    let mark = alloc::mark();
    let mut rig: ClientRig = match sessprep::prep_client(state, rng) {
        Ok(x) => x,
        Err(e) => panic!("harness: client prefix failed: {}", e),
    };
    out.count(&format!("client_state_{}", CLIENT_STATES[state]), 1);
    let mut fed = 2000usize;
    let rounds = rng.usize(1, 3);
    for _ in 0..rounds {
        let bytes = gen_stream(gen, rng, &mut rig.enc, sessprep::CLIENT_STREAM_ID);
        fed += bytes.len();
        let ctx = || json!({"target": "ClientSession", "state": CLIENT_STATES[state], "generator": GENERATORS[gen], "input": hex_short(&bytes, 400), "input_len": bytes.len()});
        let mut pos = 0;
        for n in partition_any(rng, bytes.len()) {
            let piece = &bytes[pos..pos + n];
            pos += n;
            out.count("calls_monitored", 1);
            rig.tick();
            let r = lib_call(out, "ClientSession::handle_input", &ctx, || rig.s.handle_input(piece).map(|rs| rs.len()).map_err(|e| format!("{:?}", e)));
            match r {
                None => return,
                Some(Err(_)) => {
                    out.count("outcome_err", 1);
                    if rng.coin() {
                        break;
                    }
                }
                Some(Ok(_)) => out.count("outcome_ok", 1),
            }
            if rng.chance(1, 6) {
                out.count("calls_monitored", 1);
                let which = rng.below(9);
                rig.tick();
                let r = lib_call(out, "ClientSession application call", || json!({"call": which, "context": ctx()}), || match which {
                    0 => rig.s.request_connection("app".into()).is_ok(),
                    1 => rig.s.request_playback("k".into()).is_ok(),
                    2 => rig.s.request_publishing("k".into(), PublishRequestType::Record).is_ok(),
                    3 => rig.s.stop_playback().is_ok(),
                    4 => rig.s.stop_publishing().is_ok(),
                    5 => rig.s.publish_metadata(&StreamMetadata::new()).is_ok(),
                    6 => rig.s.publish_audio_data(Bytes::from(vec![9]), RtmpTimestamp::new(1), false).is_ok(),
                    7 => rig.s.publish_video_data(Bytes::new(), RtmpTimestamp::new(1), true).is_ok(),
                    _ => rig.s.send_ping_request().is_ok(),
                });
                if r.is_none() {
                    return;
                }
            }
        }
        if !check_memory(out, mark, fed, &ctx) {
            return;
        }
    }
}

/// fixed regression witnesses for the defects found on the pinned tree (DESIGN section 7)
fn fixed_witnesses(rng: &mut Rng, out: &mut Out) {
    let mut inputs: Vec<(&str, Vec<u8>)> = Vec::new();
    // F5: a later header announcing less than what is buffered
    let mut b = raw_chunk(0, 4, 0, None, 300, 9, 1, &vec![7u8; 128]);
    b.extend(raw_chunk(0, 4, 0, None, 10, 9, 1, &vec![7u8; 10]));
    inputs.push(("header announcing less than buffered", b));
    // F6: delta header with extended timestamp below 0xFFFFFF
    let mut b = raw_chunk(0, 4, 100, None, 1, 9, 1, &[1]);
    b.extend(raw_chunk(1, 4, 0xFFFFFF, Some(5), 1, 9, 1, &[1]));
    inputs.push(("delta header with small extended timestamp", b));
    let mut b = raw_chunk(0, 4, 100, None, 1, 9, 1, &[1]);
    b.extend(raw_chunk(2, 4, 0xFFFFFF, Some(0), 0, 0, 0, &[1]));
    inputs.push(("fmt2 header with zero extended timestamp", b));
    // F3: command with fewer than three values
    inputs.push(("command with no values", raw_chunk(0, 3, 0, None, 0, 20, 0, &[])));
    let body = amf::encode(&[amf::s("connect")]);
    inputs.push(("command with one value", raw_chunk(0, 3, 0, None, body.len() as u32, 20, 0, &body)));
    let body = amf::encode(&[amf::s("connect"), amf::num(1.0)]);
    inputs.push(("amf3-flagged command with two values", raw_chunk(0, 3, 0, None, body.len() as u32, 17, 0, &body)));
    // chunk size 0 / top bit
    for v in [0u32, 0x8000_0000, 0xFFFF_FFFF] {
        let mut b = raw_chunk(0, 2, 0, None, 4, 1, 0, &v.to_be_bytes());
        b.extend(raw_chunk(0, 4, 0, None, 3, 9, 1, &[1, 2, 3]));
        inputs.push(("hostile chunk size announcement", b));
    }
    for (what, bytes) in inputs.iter() {
        for target in 0..3 {
            let ctx = || json!({"fixed_witness": what, "input": crate::rng::hex(bytes), "target": (["ChunkDeserializer", "ServerSession", "ClientSession"][target])});
            out.count("calls_monitored", 1);
            out.count("fixed_witnesses_run", 1);
            let r = match target {
                0 => lib_call(out, "ChunkDeserializer::get_next_message", &ctx, || {
                    let mut d = ChunkDeserializer::new();
                    let mut v = Vec::new();
                    let _ = crate::adapt::lib_feed(&mut d, bytes, &mut v, |d, m| {
                        if m.type_id == 1 {
                            if let Ok(RtmpMessage::SetChunkSize { size }) = crate::adapt::to_payload(m).to_rtmp_message() {
                                let _ = d.set_max_chunk_size(size as usize);
                            }
                        }
                        let _ = crate::adapt::to_payload(m).to_rtmp_message();
                    });
                }),
                1 => lib_call(out, "ServerSession::handle_input", &ctx, || {
                    let (mut rig, _) = sessprep::prep_server(2, rng).expect("prefix");
                    let _ = rig.feed(bytes);
                }),
                _ => lib_call(out, "ClientSession::handle_input", &ctx, || {
                    let mut rig = sessprep::prep_client(2, rng).expect("prefix");
                    let _ = rig.feed(bytes);
                }),
            };
            if r.is_none() {
                return;
            }
        }
    }
    // F4: @setDataFrame with nothing (or only onMetaData) behind it, to a publishing server
    for vs in [vec![amf::s("@setDataFrame")], vec![amf::s("@setDataFrame"), amf::s("onMetaData")], vec![amf::s("@setDataFrame"), amf::num(1.0)]] {
        out.count("calls_monitored", 1);
        out.count("fixed_witnesses_run", 1);
        let ctx = || json!({"fixed_witness": "@setDataFrame with missing arguments on a publishing stream", "values": amf::seq_json(&vs)});
        let r = lib_call(out, "ServerSession::handle_input", &ctx, || {
            let (mut rig, sid) = sessprep::prep_server(5, rng).expect("prefix");
            let _ = rig.send(&RMsg::Data(vs.clone()), sid, 0);
        });
        if r.is_none() {
            return;
        }
    }
}

impl Check for C03 {
    fn id(&self) -> &'static str {
        "C03"
    }
    fn plan(&self, tier: Tier) -> Plan {
        let mut p = Plan::new(tier.pick(1_500_000, 150_000_000), tier.pick(30.0, 480.0));
        p.mandatory = 6;
        p.cpu_budget_s = 60.0;
        p
    }
    fn selftest(&self) -> Result<(), String> {
        crate::refs::chunk::selftest()?;
        msg::selftest()
    }
    fn run_case(&self, _tier: Tier, k: u64, rng: &mut Rng, out: &mut Out) {
        let _cg = ClockGuard;
        if k == 0 {
            fixed_witnesses(rng, out);
            out.eval(1);
            return;
        }
        if k == 1 {
            f15_case(out);
            return;
        }
        if k == 4 || k == 5 {
            // a million complete one-byte messages in ONE call (zero-length audio on a stream nobody
            // publishes on, then 1,000,000 bare type-3 headers): work per message must not grow with
            // what is still buffered behind it
            out.eval(1);
            let mut wire = vec![0x04u8, 0, 0, 0, 0, 0, 0, 8, 9, 0, 0, 0];
            wire.extend(std::iter::repeat(0xC4u8).take(1_000_000));
            let ctx = || json!({"input": "04 000000 000000 08 09000000 then 1,000,000 x C4 in one call", "target": if k == 4 { "ChunkDeserializer" } else { "ServerSession" }});
            out.count("calls_monitored", 1);
            if k == 4 {
                lib_call(out, "ChunkDeserializer::get_next_message (drained)", &ctx, || {
                    let mut d = rml_rtmp::chunk_io::ChunkDeserializer::new();
                    let mut n = 0u64;
                    let mut input: &[u8] = &wire;
                    while let Ok(Some(_)) = d.get_next_message(input) {
                        n += 1;
                        input = &[];
                    }
                    n
                });
            } else {
                lib_call(out, "ServerSession::handle_input", &ctx, || {
                    let (mut s, _) = rml_rtmp::sessions::ServerSession::new(rml_rtmp::sessions::ServerSessionConfig::new()).expect("session");
                    s.handle_input(&wire).map(|r| r.len()).unwrap_or(0)
                });
            }
            return;
        }
        if k == 2 || k == 3 {
            // a long-lived connection: more than 2^32 bytes received in total with an
            // acknowledgement window of 1 GiB in force (counters that wrap, differences that go
            // negative); the acknowledgements themselves are judged by C17's monitor
            super::c17::volume_run_opt(k == 2, 1 << 30, (1u64 << 32) + (300 << 20), false, out);
            out.count("calls_monitored", 280);
            return;
        }
        out.eval(1);
        // target and generator are enumerated round-robin so every pair and every state class
        // is reached deterministically; the content is seeded
        let gen = (k % GENERATORS.len() as u64) as usize;
        let t = (k / GENERATORS.len() as u64) % 24;
        let (target_name, state): (&str, usize) = match t {
            0 => ("handshake", 0),
            1 => ("deserializer", 0),
            2 => ("payload", 0),
            3..=12 => ("server", (t - 3) as usize),
            _ => ("client", ((t - 13) % 10) as usize),
        };
        out.count(&format!("pair_{}_x_{}", target_name, GENERATORS[gen]), 1);
        let tally = |out: &Out| -> (u64, u64, u64, u64) {
            let g = |k: &str| out.counters.get(k).copied().unwrap_or(0);
            (g("outcome_ok"), g("outcome_err"), g("messages_decoded"), g("calls_monitored"))
        };
        let before = tally(out);
        match target_name {
            "handshake" => run_handshake(rng, out, gen),
            "deserializer" => run_deserializer(rng, out, gen),
            "payload" => run_payload(rng, out),
            "server" => run_server(rng, out, gen, state),
            _ => run_client(rng, out, gen, state),
        }
        // shape: (target, state, generator) x what was observed (how many calls returned Ok / Err,
        // how many messages came out, how many calls the input was split into - bucketed)
        let after = tally(out);
        let b = |x: u64| -> u64 {
            match x {
                0 => 0,
                1 => 1,
                2..=3 => 2,
                4..=15 => 3,
                16..=255 => 4,
                _ => 5,
            }
        };
        out.shape(mix(mix(t, gen as u64), mix(b(after.0 - before.0) * 36 + b(after.1 - before.1) * 6 + b(after.2 - before.2), b(after.3 - before.3))));
        out.sample(|| json!({"target": target_name, "state": if target_name == "server" { SERVER_STATES[state] } else if target_name == "client" { CLIENT_STATES[state] } else { "-" }, "generator": GENERATORS[gen]}));
    }
    fn rule(&self) -> String {
        "targets {Handshake (both roles, with/without generated p0+p1), ChunkDeserializer + MessagePayload::to_rtmp_message on everything it returns, MessagePayload::to_rtmp_message / rml_amf0::deserialize on arbitrary (type id, body), ServerSession in 10 state classes, ClientSession in 10 state classes} x generators {random bytes (optionally with a valid basic header); well-formed chunk streams carrying arbitrary (type id, body) with bodies empty/short/random/valid/valid-truncated/wrong-arity AMF0/AMF0 nested <= 32/declared lengths with nothing behind/mutated; protocol commands and data messages with arbitrary argument lists (NaN, negative, huge, fractional ids; missing and ill-typed arguments; AMF3-flagged) interleaved with media and application calls with arbitrary ids; chunk-level hostility (shrinking length mid-message, delta headers with small extended timestamps, compressed headers on unseen csids, chunk sizes 0/1/2^31-1/top bit, aborts, zero-length messages, 16 MiB announced with few bytes, hundreds of distinct csids, stray type-3 chunks, arbitrary header fields); mutated valid foreign streams; valid foreign streams}, enumerated round-robin (every target-state x generator pair), each fed in a random partition. Session states are reached by a valid prefix with a reference-encoding peer. Case 0 replays the fixed witnesses of the defects found on the pinned tree; case 1 exhibits the recorded finding F15 (per-event copies of a 60,000-byte application name and stream key, one per one-byte zero-length message). Allocation explained by such copies is reported under F15's signature, anything beyond under the general one. Cases 4 and 5 give a deserializer and a server session a million one-byte messages in one call. Cases 2 and 3 feed a server and a client session 2^32 + 300 MiB in 16 MiB calls with an acknowledgement window of 1 GiB in force. Every library call runs under the panic monitor (overflow-checks and debug-assertions on), the allocator bound peak <= 256 x bytes fed + 33 MiB and the 20 s CPU watchdog. distinct = (target, state, generator) x bucketed observation (calls returning Ok, calls returning Err, messages decoded, number of calls).".to_string()
    }
    fn assumptions(&self) -> Vec<String> {
        vec![
            "hang = a monitored library call using more than 4 CPU-seconds of its thread, or a case exceeding 60 CPU-seconds (normal cost < 5 ms; the volume runs take about 2 s); memory bound constants as in DESIGN 2.3".to_string(),
            "AMF0 nesting is bounded by 32 here; unbounded nesting is C14; > 4 GiB volume is exercised by C17's volume run".to_string(),
            "release build with overflow-checks = true and debug-assertions = true, so arithmetic overflow is an observable event".to_string(),
        ]
    }
    fn required_counters(&self, _tier: Tier) -> Vec<String> {
        let mut v = vec!["calls_monitored".to_string(), "outcome_ok".into(), "outcome_err".into(), "messages_decoded".into(), "fixed_witnesses_run".into()];
        for s in SERVER_STATES {
            v.push(format!("server_state_{}", s));
        }
        for s in CLIENT_STATES {
            v.push(format!("client_state_{}", s));
        }
        for t in ["handshake", "deserializer", "payload", "server", "client"] {
            for g in GENERATORS {
                v.push(format!("pair_{}_x_{}", t, g));
            }
        }
        v
    }
    fn death_signature(&self, how: &str) -> String {
        format!("worker-died-on-network-input:{}", how)
    }
}

// generators shared with C15
pub fn mutate_for_c15(rng: &mut Rng, b: Vec<u8>) -> Vec<u8> {
    mutate(rng, b)
}

pub fn hostile_for_c15(rng: &mut Rng, chunk_size: usize) -> Vec<u8> {
    hostile_chunks(rng, chunk_size)
}

pub fn gen_stream_for_c15(gen: usize, rng: &mut Rng, enc: &mut Encoder, stream_hint: u32) -> Vec<u8> {
    gen_stream(gen, rng, enc, stream_hint)
}
