use crate::fw::Check;

pub mod c04;
pub mod c12;
pub mod c13;
pub mod c20;

pub fn all() -> Vec<Box<dyn Check>> {
    vec![Box::new(c04::C04), Box::new(c12::C12), Box::new(c13::C13), Box::new(c20::C20)]
}

pub fn get(id: &str) -> Option<Box<dyn Check>> {
    all().into_iter().find(|c| c.id().eq_ignore_ascii_case(id))
}
