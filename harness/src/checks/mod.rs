use crate::fw::Check;

pub mod c20;

pub fn all() -> Vec<Box<dyn Check>> {
    vec![Box::new(c20::C20)]
}

pub fn get(id: &str) -> Option<Box<dyn Check>> {
    all().into_iter().find(|c| c.id().eq_ignore_ascii_case(id))
}
