//! C14 - AMF0 decoding uses bounded stack and memory on every input.
//! Monitors: worker exit status (stack overflow = process death observed by the supervisor),
//! counting allocator, CPU-time watchdog.  Decoding runs on a 2 MiB-stack thread.

use crate::alloc;
use crate::fw::{panic_signature, Check, Out, Plan, Tier};
use crate::refs::chunk::{set_chunk_size_msg, Encoder, Msg};
use crate::rng::{hex_short, mix, Rng};
use bytes::Bytes;
use rml_rtmp::messages::MessagePayload;
use rml_rtmp::sessions::{ServerSession, ServerSessionConfig};
use rml_rtmp::time::RtmpTimestamp;
use serde_json::{json, Value};

pub struct C14;

const STACK: usize = 2 << 20;
const MAX_LEN: usize = 16_777_215;

const DEPTHS_QUICK: [usize; 7] = [1, 10, 100, 1_000, 10_000, 100_000, 1_000_000];
const DEPTHS_THOROUGH: [usize; 9] = [1, 10, 100, 1_000, 10_000, 100_000, 1_000_000, 2_000_000, MAX_LEN / 5];
const KINDS: usize = 13;
const RUN_BYTES: [u8; 12] = [0x09, 0x00, 0x01, 0x02, 0x03, 0x05, 0x06, 0x08, 0x0A, 0x0B, 0x0C, 0xFF];
const RUN_LENS: [usize; 3] = [20_000, 1_000_000, 16_777_215];

fn kind_name(kind: usize) -> &'static str {
    ["nested-strict-arrays", "nested-objects-closed", "nested-objects-unclosed", "nested-ecma-arrays", "mixed-nesting", "nested-arrays-inside-valid-prefix", "array-of-arrays-wide-and-deep", "nested-objects-long-names", "nested-arrays-count-max", "nested-objects-empty-names", "nested-ecma-arrays-empty-names", "mixed-nesting-with-empty-names", "nested-arrays-beside-an-array-closed-early-by-09"][kind]
}

/// nesting input of `n` levels (truncated to the 16 MiB message limit)
fn build_nested(kind: usize, n: usize) -> Vec<u8> {
    let mut v: Vec<u8> = Vec::new();
    match kind {
        0 => {
            let n = n.min(MAX_LEN / 5);
            for _ in 0..n {
                v.extend_from_slice(&[0x0A, 0, 0, 0, 1]);
            }
            if v.len() < MAX_LEN {
                v.push(0x05);
            }
        }
        1 => {
            let n = n.min((MAX_LEN - 1) / 7);
            for _ in 0..n {
                v.extend_from_slice(&[0x03, 0, 1, b'a']);
            }
            v.push(0x05);
            for _ in 0..n {
                v.extend_from_slice(&[0, 0, 9]);
            }
        }
        2 => {
            let n = n.min(MAX_LEN / 4);
            for _ in 0..n {
                v.extend_from_slice(&[0x03, 0, 1, b'a']);
            }
        }
        3 => {
            let n = n.min(MAX_LEN / 8);
            for _ in 0..n {
                v.extend_from_slice(&[0x08, 0, 0, 0, 1, 0, 1, b'a']);
            }
        }
        4 => {
            let mut i = 0;
            while i < n && v.len() + 8 < MAX_LEN {
                match i % 3 {
                    0 => v.extend_from_slice(&[0x0A, 0, 0, 0, 2]),
                    1 => v.extend_from_slice(&[0x03, 0, 2, b'k', b'k']),
                    _ => v.extend_from_slice(&[0x08, 0xFF, 0xFF, 0xFF, 0xFF, 0, 1, b'e']),
                }
                i += 1;
            }
        }
        5 => {
            v.extend_from_slice(&[0x02, 0, 7]);
            v.extend_from_slice(b"connect");
            v.extend_from_slice(&[0x00, 0x3f, 0xf0, 0, 0, 0, 0, 0, 0]);
            v.extend_from_slice(&[0x03, 0, 3, b'a', b'p', b'p']);
            let n = n.min((MAX_LEN - 64) / 5);
            for _ in 0..n {
                v.extend_from_slice(&[0x0A, 0, 0, 0, 1]);
            }
        }
        6 => {
            // each level: array of 2 whose first element is a Null and second the next level
            let n = n.min(MAX_LEN / 6);
            for _ in 0..n {
                v.extend_from_slice(&[0x0A, 0, 0, 0, 2, 0x05]);
            }
        }
        7 => {
            let name = [b'n'; 40];
            let n = n.min(MAX_LEN / 43);
            for _ in 0..n {
                v.extend_from_slice(&[0x03, 0, 40]);
                v.extend_from_slice(&name);
            }
        }
        8 => {
            let n = n.min(MAX_LEN / 5);
            for _ in 0..n {
                v.extend_from_slice(&[0x0A, 0xFF, 0xFF, 0xFF, 0xFF]);
            }
        }
        // nesting through properties with an empty name (a lenient decoder may accept them)
        9 => {
            let n = n.min(MAX_LEN / 3);
            for _ in 0..n {
                v.extend_from_slice(&[0x03, 0, 0]);
            }
        }
        10 => {
            let n = n.min(MAX_LEN / 7);
            for _ in 0..n {
                v.extend_from_slice(&[0x08, 0, 0, 0, 1, 0, 0]);
            }
        }
        12 => {
            // each level: an array of two - a one-element array that an object-end marker closes
            // early, then the next level (whatever closing a level does, it does once)
            let n = n.min(MAX_LEN / 11);
            for _ in 0..n {
                v.extend_from_slice(&[0x0A, 0, 0, 0, 2, 0x0A, 0, 0, 0, 1, 0x09]);
            }
        }
        _ => {
            let mut i = 0;
            while i < n && v.len() + 8 < MAX_LEN {
                match i % 4 {
                    0 => v.extend_from_slice(&[0x03, 0, 0]),
                    1 => v.extend_from_slice(&[0x0A, 0, 0, 0, 1]),
                    2 => v.extend_from_slice(&[0x08, 0, 0, 0, 0, 0, 0]),
                    _ => v.extend_from_slice(&[0x03, 0, 1, b'n']),
                }
                i += 1;
            }
        }
    }
    v.truncate(MAX_LEN);
    v
}

/// every marker byte followed by a declared length / count (as u16 and as u32) that promises up
/// to 4 GiB - in particular values *below* 2^24, which pass an "is it larger than a message?"
/// sanity check - with nothing or 16 bytes behind it, at top level, as a property value and as
/// an array element
fn marker_length_matrix() -> Vec<(String, Vec<u8>)> {
    let markers: Vec<u8> = (0u8..=0x13).chain([0x20u8, 0x7F, 0x80, 0xFF].into_iter()).collect();
    let mut lens: Vec<Vec<u8>> = Vec::new();
    for l in [0xFFFFu16, 0x8000, 0x0100] {
        lens.push(l.to_be_bytes().to_vec());
    }
    for l in [0xFFFF_FFFFu32, 0x7FFF_FFFF, 0x0100_0000, 0x00FF_FFFF, 0x00FF_FFFE, 0x0080_0000, 0x0010_0000, 0x0001_0000] {
        lens.push(l.to_be_bytes().to_vec());
    }
    let prefixes: [(&str, &[u8]); 3] = [("top level", &[]), ("property value", &[0x03, 0, 1, b'a']), ("array element", &[0x0A, 0, 0, 0, 1])];
    let mut v = Vec::new();
    for m in markers.iter() {
        for l in lens.iter() {
            for (pn, p) in prefixes.iter() {
                for tail in [0usize, 16] {
                    let mut b = p.to_vec();
                    b.push(*m);
                    b.extend_from_slice(l);
                    b.extend(std::iter::repeat(b'a').take(tail));
                    v.push((format!("marker {:#04x} declaring {} as {}, {} bytes behind", m, crate::rng::hex(l), pn, tail), b));
                }
            }
        }
    }
    // property names (and string values) of every small byte length built from 2-, 3- and 4-byte
    // characters at every alignment, with the value missing, cut short or replaced by an object
    // end: anything that cuts or indexes such text by a byte count lands inside a character
    for unit in ["\u{e9}", "\u{4e2d}", "\u{1f600}"] {
        for shift in 0..4usize {
            for chars in [1usize, 2, 5, 8, 10, 11, 12, 16, 17, 21, 22, 32, 33, 40] {
                let name = format!("{}{}", "a".repeat(shift), unit.repeat(chars));
                for tail in [&[][..], &[0x09][..], &[0x00][..], &[0x02, 0x00][..], &[0x05, 0, 0, 9][..]] {
                    let mut b = vec![0x03];
                    b.extend_from_slice(&(name.len() as u16).to_be_bytes());
                    b.extend_from_slice(name.as_bytes());
                    b.extend_from_slice(tail);
                    v.push((format!("object with a property name of {} bytes ({} x {}-byte characters after {} ASCII), then {:02x?}", name.len(), chars, unit.len(), shift, tail), b));
                }
                let mut b = vec![0x02];
                b.extend_from_slice(&((name.len() + 3) as u16).to_be_bytes());
                b.extend_from_slice(name.as_bytes());
                v.push((format!("string value declaring 3 bytes more than its {} bytes of multi-byte text", name.len()), b));
            }
        }
    }
    v
}

/// inputs whose declared counts / lengths promise far more than is there
fn build_count_input(i: usize, rng: &mut Rng) -> (String, Vec<u8>) {
    let filler = |n: usize, b: u8| vec![b; n];
    if i >= 14 {
        // very many tiny containers in one message (a constant cost per container multiplies),
        // and a chain of back-references (marker 07: each value names its predecessor twice)
        let rep = |unit: &[u8], total: usize| -> Vec<u8> {
            let mut v = Vec::with_capacity(total);
            while v.len() + unit.len() <= total {
                v.extend_from_slice(unit);
            }
            v
        };
        return match i - 14 {
            0 => ("131,072 empty ECMA arrays (1 MiB)".into(), rep(&[0x08, 0, 0, 0, 0, 0, 0, 9], 1 << 20)),
            1 => ("262,144 empty objects (1 MiB)".into(), rep(&[0x03, 0, 0, 9], 1 << 20)),
            2 => ("empty ECMA arrays, 16 MiB".into(), rep(&[0x08, 0, 0, 0, 0, 0, 0, 9], MAX_LEN)),
            3 => ("ECMA arrays with one property each, 4 MiB".into(), rep(&[0x08, 0, 0, 0, 1, 0, 1, b'a', 0x05, 0, 0, 9], 4 << 20)),
            4 => ("objects with one property each, 4 MiB".into(), rep(&[0x03, 0, 1, b'a', 0x05, 0, 0, 9], 4 << 20)),
            6 => {
                let mut v = vec![0x03];
                v.extend(rep(&[0, 1, b'a', 0x05], 800_000));
                v.extend_from_slice(&[0, 0, 9]);
                ("one object with the same property name repeated 200,000 times".into(), v)
            }
            7 => {
                let mut v = vec![0x08, 0, 0, 0, 1];
                v.extend(rep(&[0, 1, b'a', 0x0A, 0, 0, 0, 0], 1_600_000));
                v.extend_from_slice(&[0, 0, 9]);
                ("one ECMA array with the same property name repeated 200,000 times (values: empty arrays)".into(), v)
            }
            8 | 9 | 10 | 11 => {
                // a lying count that is only trusted once enough real elements have arrived
                let (count, real): (u32, usize) = [(0x0040_0000, 1_025), (0xFFFF_FFFF, 1_100), (0x7FFF_FFFF, 4_097), (0x0100_0000, 70_000)][i - 14 - 8];
                let mut v = vec![0x0A];
                v.extend_from_slice(&count.to_be_bytes());
                v.extend(std::iter::repeat(0x05u8).take(real));
                (format!("strict array declaring {} elements with {} nulls behind", count, real), v)
            }
            _ => {
                let mut v = vec![0x0A, 0, 0, 0, 1, 0x05];
                for k in 1..40u16 {
                    v.extend_from_slice(&[0x0A, 0, 0, 0, 2, 0x07]);
                    v.extend_from_slice(&(k - 1).to_be_bytes());
                    v.push(0x07);
                    v.extend_from_slice(&(k - 1).to_be_bytes());
                }
                ("chain of 40 arrays each holding two references (marker 07) to its predecessor".into(), v)
            }
        };
    }
    match i % 14 {
        0 => ("strict array count 2^32-1, nothing behind".into(), vec![0x0A, 0xFF, 0xFF, 0xFF, 0xFF]),
        1 => {
            let mut v = vec![0x0A, 0xFF, 0xFF, 0xFF, 0xFF];
            v.extend(filler(1000, 0x05));
            ("strict array count 2^32-1, 1000 nulls behind".into(), v)
        }
        2 => ("ecma array count 2^32-1, nothing behind".into(), vec![0x08, 0xFF, 0xFF, 0xFF, 0xFF]),
        3 => ("ecma array count 2^32-1 then empty object end".into(), vec![0x08, 0xFF, 0xFF, 0xFF, 0xFF, 0, 0, 9]),
        4 => ("string declaring 65535 bytes, nothing behind".into(), vec![0x02, 0xFF, 0xFF]),
        5 => ("property name declaring 65535 bytes, nothing behind".into(), vec![0x03, 0xFF, 0xFF]),
        6 => {
            let mut v = Vec::new();
            for _ in 0..2000 {
                v.extend_from_slice(&[0x02, 0xFF, 0xFF]);
            }
            ("2000 x string marker declaring 65535 bytes (each consumes the next ones)".into(), v)
        }
        7 => {
            let mut v = vec![0x03, 0, 1, b'a', 0x0A, 0x7F, 0xFF, 0xFF, 0xFF];
            v.extend(filler(64, 0x06));
            ("array count 2^31-1 inside an object".into(), v)
        }
        8 => {
            let mut v = Vec::new();
            for _ in 0..3000 {
                v.extend_from_slice(&[0x0A, 0x00, 0xFF, 0xFF, 0xFF]);
            }
            ("3000 nested arrays each declaring 16,777,215 elements".into(), v)
        }
        9 => {
            let n = MAX_LEN;
            ("16,777,215 null markers".into(), filler(n, 0x05))
        }
        10 => {
            let mut v = vec![0x0A, 0x00, 0xFF, 0xFF, 0xFF];
            v.extend(filler(MAX_LEN - 5, 0x06));
            ("array of 16,777,210 undefined markers".into(), v)
        }
        11 => {
            let mut v = Vec::with_capacity(MAX_LEN);
            while v.len() + 3 <= MAX_LEN {
                v.extend_from_slice(&[0x02, 0, 0]);
            }
            ("5.5 M empty strings".into(), v)
        }
        12 => {
            let mut v = Vec::with_capacity(MAX_LEN);
            while v.len() + 3 <= MAX_LEN {
                v.extend_from_slice(&[0x0A, 0, 0, 0, 0]);
            }
            ("3.3 M empty arrays".into(), v)
        }
        _ => {
            // an ECMA array (and an object) whose keys are decimal numbers, one of them large: a
            // decoder that turns such arrays into dense ones must not size them by the key
            let key = *rng.pick(&["2000000", "4294967295", "16777215", "18446744073709551615", "99999999999"]);
            let mut v = vec![if rng.coin() { 0x08 } else { 0x03 }];
            if v[0] == 0x08 {
                v.extend_from_slice(&[0, 0, 0, 2]);
            }
            v.extend_from_slice(&[0, 1, b'0', 0x05]);
            v.extend_from_slice(&(key.len() as u16).to_be_bytes());
            v.extend_from_slice(key.as_bytes());
            v.extend_from_slice(&[0x05, 0, 0, 9]);
            (format!("container with numeric keys \"0\" and \"{}\"", key), v)
        }
    }
}

#[derive(Clone, Copy)]
enum Route {
    Amf0,
    Payload(u8),
    Session,
}

fn route_name(r: Route) -> String {
    match r {
        Route::Amf0 => "rml_amf0::deserialize".into(),
        Route::Payload(t) => format!("MessagePayload{{type {}}}::to_rtmp_message", t),
        Route::Session => "ServerSession::handle_input (one type-20 message)".into(),
    }
}

/// Decode `input` by `route` on a 2 MiB stack; observe panic / allocation peak.
fn decode_on_small_stack(input: Vec<u8>, route: Route, what: &str, out: &mut Out) {
    out.eval(1);
    let len = input.len();
    // everything the harness itself allocates for the call is prepared before the mark
    let wire: Option<Vec<u8>> = match route {
        Route::Session => {
            let mut enc = Encoder::new();
            let mut w = enc.encode_simple(&set_chunk_size_msg(0x7FFF_FFFF, 0), 2);
            enc.chunk_size = 0x7FFF_FFFF;
            w.extend(enc.encode_simple(&Msg { type_id: 20, msid: 0, ts: 0, data: input.clone() }, 3));
            Some(w)
        }
        _ => None,
    };
    let payload = match route {
        Route::Payload(t) => Some(MessagePayload { timestamp: RtmpTimestamp::new(0), type_id: t, message_stream_id: 0, data: Bytes::from(input.clone()) }),
        _ => None,
    };
    let head = hex_short(&input, 48);
    let mark = alloc::mark();
    let handle = std::thread::Builder::new().stack_size(STACK).name("amf0-decode".into()).spawn(move || {
        let t0 = crate::fw::thread_cpu_ns();
        let r = crate::fw::guarded(move || match route {
            Route::Amf0 => {
                let mut cur = std::io::Cursor::new(&input[..]);
                let r = rml_amf0::deserialize(&mut cur);
                let ok = r.is_ok();
                let n = r.as_ref().map(|v| v.len()).unwrap_or(0);
                let peak = alloc::peak_since(mark);
                drop(r);
                (ok, n, peak)
            }
            Route::Payload(_) => {
                let p = payload.unwrap();
                let r = p.to_rtmp_message();
                let ok = r.is_ok();
                let peak = alloc::peak_since(mark);
                drop(r);
                (ok, 0, peak)
            }
            Route::Session => {
                let (mut s, _) = ServerSession::new(ServerSessionConfig::new()).expect("session");
                let r = s.handle_input(&wire.unwrap());
                let ok = r.is_ok();
                let n = r.as_ref().map(|v| v.len()).unwrap_or(0);
                let peak = alloc::peak_since(mark);
                drop(r);
                (ok, n, peak)
            }
        });
        (r, crate::fw::thread_cpu_ns().saturating_sub(t0))
    });
    let handle = match handle {
        Ok(h) => h,
        Err(e) => panic!("harness: cannot spawn decode thread: {}", e),
    };
    let r = handle.join();
    let ctx = || json!({"input": what, "length": len, "head": head, "route": route_name(route), "stack_bytes": STACK});
    // "terminates": in time proportionate to the input - 4 CPU-seconds of the decoding thread plus
    // 2 microseconds per input byte (a 16 MiB input decodes in well under a second), scaled by
    // RMLV_SLOW_FACTOR under valgrind
    let (r, cpu_ns) = match r {
        Ok((r, c)) => (Ok(r), c),
        Err(e) => (Err(e), 0),
    };
    let cpu_limit = crate::fw::call_cpu_limit_ns() + (crate::fw::call_cpu_limit_ns() / 4_000_000_000) * 2_000 * len as u64;
    if cpu_ns > cpu_limit {
        out.violation("decoding-time-out-of-all-proportion-to-the-input", json!({"thread_cpu_seconds": cpu_ns as f64 / 1e9, "limit_seconds": cpu_limit as f64 / 1e9, "context": ctx()}));
        return;
    }
    match r {
        Err(_) => out.violation("decode-thread-died", ctx()),
        Ok(Err((loc, msg))) => out.violation(&panic_signature(&loc, &msg), json!({"panic_at": loc, "panic_message": msg, "context": ctx()})),
        Ok(Ok((ok, _n, peak))) => {
            // harness-side copies made inside the window: the session route buffers the wire once
            let allowance = match route {
                Route::Session => 3 * len + (40 << 20),
                _ => 0,
            };
            let bound = 256 * len + (256 << 10) + allowance;
            out.maxv("max_peak_alloc_bytes", peak as u64);
            out.maxv("max_peak_per_input_byte_x100", if len > 0 { (peak * 100 / len) as u64 } else { 0 });
            if peak > bound {
                out.violation(
                    "allocation-exceeds-small-multiple-of-input",
                    json!({"peak_bytes": peak, "bound": bound, "context": ctx()}),
                );
            } else {
                out.count(if ok { "decoded_ok" } else { "decoded_err" }, 1);
                out.count(&format!("route_{}", match route { Route::Amf0 => "amf0", Route::Payload(_) => "payload", Route::Session => "session" }), 1);
            }
        }
    }
}

impl C14 {
    fn depths(tier: Tier) -> &'static [usize] {
        match tier {
            Tier::Quick => &DEPTHS_QUICK,
            Tier::Thorough => &DEPTHS_THOROUGH,
        }
    }
    fn ladder_cases(tier: Tier) -> u64 {
        (KINDS * Self::depths(tier).len() * 3) as u64
    }
    fn run_cases() -> u64 {
        (RUN_BYTES.len() * RUN_LENS.len() * 3) as u64
    }
}

impl Check for C14 {
    fn id(&self) -> &'static str {
        "C14"
    }
    fn plan(&self, tier: Tier) -> Plan {
        let ladder = Self::ladder_cases(tier);
        let counts = 26 * 3;
        let mut p = Plan::new(ladder + counts + Self::run_cases() + 3 + tier.pick(12_000, 300_000), tier.pick(35.0, 420.0));
        p.mandatory = ladder + counts + Self::run_cases() + 3;
        p.cpu_budget_s = 120.0;
        p.workers = 8;
        p.mem_ceiling = 7 << 30;
        p
    }
    fn run_case(&self, tier: Tier, k: u64, rng: &mut Rng, out: &mut Out) {
        let ladder = Self::ladder_cases(tier);
        let routes = |i: u64| match i % 3 {
            0 => Route::Amf0,
            1 => Route::Payload([20u8, 18, 17, 15][(i / 3 % 4) as usize]),
            _ => Route::Session,
        };
        if k < ladder {
            let depths = Self::depths(tier);
            let idx = (k / 3) as usize;
            let kind = idx % KINDS;
            let n = depths[idx / KINDS];
            let input = build_nested(kind, n);
            let what = format!("{} x {}", kind_name(kind), n);
            out.count(&format!("ladder_depth_{}", n), 1);
            out.shape(mix(mix(kind as u64, n as u64), k % 3));
            out.sample(|| json!({"input": what, "length": input.len(), "head": hex_short(&input, 40)}));
            decode_on_small_stack(input, routes(k), &what, out);
            return;
        }
        let k2 = k - ladder;
        let runs = Self::run_cases();
        if k2 >= 26 * 3 && k2 < 26 * 3 + runs {
            // long runs of one byte value: every marker (and object-end 09, and FF) repeated
            let i = (k2 - 26 * 3) as usize;
            let b = RUN_BYTES[i / (RUN_LENS.len() * 3) % RUN_BYTES.len()];
            let n = RUN_LENS[(i / 3) % RUN_LENS.len()];
            let mut input = vec![b; n];
            if i % 2 == 0 {
                input.pop();
                input.push(0x05);
            }
            let what = format!("run of {} x byte {:#04x}", n, b);
            out.count("homogeneous_run_inputs", 1);
            out.shape(mix(0xB0 + b as u64, n as u64));
            decode_on_small_stack(input, routes(k2), &what, out);
            return;
        }
        if k2 >= 26 * 3 + runs && k2 < 26 * 3 + runs + 3 {
            for (what, input) in marker_length_matrix() {
                out.count("marker_x_declared_length_inputs", 1);
                decode_on_small_stack(input, routes(k2), &what, out);
            }
            out.shape(mix(0xD0, k2));
            return;
        }
        let k2 = if k2 >= 26 * 3 + runs + 3 { k2 - runs - 3 } else { k2 };
        if k2 < 26 * 3 {
            let (what, input) = build_count_input((k2 / 3) as usize, rng);
            out.count("count_field_inputs", 1);
            out.shape(mix(0xC0, k2));
            decode_on_small_stack(input, routes(k2), &what, out);
            return;
        }
        // random / mutated inputs: a valid-looking structure with mutations, or a nesting prefix
        // followed by random bytes, at random lengths up to the message limit
        let (what, input): (String, Vec<u8>) = match rng.below(8) {
            6 | 7 => {
                // a valid encoding of generated values (multi-byte names, special names, numeric
                // keys, objects written as ECMA arrays), cut at a random point or with a few
                // bytes changed: the error paths see well-formed material up to the damage
                use crate::refs::amf::{self, EncPolicy, GenCfg};
                let cfg = GenCfg { max_depth: rng.usize(1, 4), max_children: rng.usize(2, 6), inexpressible: false, long_strings: false };
                let vs = amf::gen_seq(rng, &cfg);
                let pol = EncPolicy { ecma_per_256: *rng.pick(&[0u32, 128, 256]), any_true_byte: rng.coin() };
                let (mut v, _) = amf::encode_variant(&vs, &pol, rng);
                let what = if rng.coin() && !v.is_empty() {
                    let c = rng.usize(0, v.len() - 1);
                    v.truncate(c);
                    "valid encoding truncated"
                } else {
                    for _ in 0..rng.usize(1, 3) {
                        if v.is_empty() {
                            break;
                        }
                        let at = rng.usize(0, v.len() - 1);
                        v[at] = if rng.coin() { 0x09 } else { rng.u8() };
                    }
                    "valid encoding with bytes changed"
                };
                (what.into(), v)
            }
            0 => {
                let n = rng.usize(0, 4096);
                ("random bytes".into(), rng.bytes(n))
            }
            1 => {
                let kind = rng.usize(0, KINDS - 1);
                let n = rng.usize(1, 30_000);
                let mut v = build_nested(kind, n);
                let extra = rng.usize(0, 64);
                v.extend(rng.bytes(extra));
                (format!("{} x {} + {} random bytes", kind_name(kind), n, extra), v)
            }
            2 => {
                let kind = rng.usize(0, KINDS - 1);
                let n = rng.usize(1, 20_000);
                let mut v = build_nested(kind, n);
                for _ in 0..rng.usize(1, 8) {
                    if v.is_empty() {
                        break;
                    }
                    let at = rng.usize(0, v.len() - 1);
                    v[at] = rng.u8();
                }
                (format!("{} x {} with byte mutations", kind_name(kind), n), v)
            }
            3 => {
                // markers only: random sequence of container openers
                let n = rng.usize(1, 50_000);
                let mut v = Vec::with_capacity(n * 5);
                for _ in 0..n {
                    match rng.below(4) {
                        0 => v.extend_from_slice(&[0x0A, 0, 0, 0, 1]),
                        1 => v.extend_from_slice(&[0x03, 0, 1, b'x']),
                        2 => v.extend_from_slice(&[0x08, 0, 0, 0, 0, 0, 1, b'y']),
                        _ => v.extend_from_slice(&[0x0A, 0, 0, 0, 2, 0x05]),
                    }
                }
                (format!("{} random container openers", n), v)
            }
            4 => {
                let (w, v) = build_count_input(rng.usize(0, 8), rng);
                (w, v)
            }
            _ => {
                let n = rng.usize(1, 200_000);
                let mut v = vec![0u8; n];
                rng.fill(&mut v);
                // bias towards markers
                for b in v.iter_mut().step_by(3) {
                    *b = [0u8, 1, 2, 3, 5, 6, 8, 10][(*b & 7) as usize];
                }
                (format!("{} marker-biased random bytes", n), v)
            }
        };
        out.count("random_or_mutated_inputs", 1);
        out.shape(mix(0xAA, crate::rng::fnv(what.as_bytes()) % 5000));
        decode_on_small_stack(input, routes(rng.below(3)), &what, out);
    }
    fn rule(&self) -> String {
        "each input is decoded on a spawned thread with a 2 MiB stack inside a supervised worker, by one of three routes (rml_amf0::deserialize; MessagePayload{type 20/18/17/15}::to_rtmp_message; a ServerSession receiving it as one type-20 message). Mandatory ladder: 13 nesting kinds (strict arrays, closed and unclosed objects, ECMA arrays, mixed, after a valid command prefix, wide-and-deep, long names, arrays with count 2^32-1, objects / ECMA arrays / a mix nested through properties with an empty name; arrays each beside a sibling array closed early by an object-end marker) x depths {1,10,100,10^3,10^4,10^5,10^6; thorough adds 2*10^6 and 3,355,443 = 16,777,215/5} x 3 routes; every marker byte 0x00-0x13, 0x20, 0x7F, 0x80, 0xFF followed by a declared length or count (u16 {0xFFFF, 0x8000, 0x0100}, u32 {2^32-1, 2^31-1, 2^24, 2^24-1, 2^24-2, 2^23, 2^20, 2^16}) with 0 or 16 bytes behind it, at top level, as a property value and as an array element, plus property names and strings of 2-164 bytes built from 2-, 3- and 4-byte characters at every alignment with the value missing, cut short or replaced by an object end (2,592 inputs x 3 routes); 20 count/length inputs (among them 131,072 / 2 M empty ECMA arrays, 262,144 empty objects, one-property containers by the megabyte, a chain of 40 arrays each holding two back-references to its predecessor) (counts 2^31-1 and 2^32-1 with little or no data, declared 65535-byte strings and names with nothing behind, 16,777,215 one-byte values) x 3 routes; runs of 20,000 / 10^6 / 16,777,215 copies of one byte for each marker value, object-end 09, 0B, 0C and FF, x 3 routes; then random, mutated and marker-biased inputs. distinct = (kind, depth, route).".to_string()
    }
    fn assumptions(&self) -> Vec<String> {
        vec![
            "2 MiB (Rust's default spawned-thread stack) is taken as 'an ordinary thread stack'".to_string(),
            "time bound: 4 CPU-seconds of the decoding thread + 2 microseconds per input byte; memory bound: peak live allocation during the call <= 256 x input length + 256 KiB (one input byte 05 legitimately becomes a 56-byte value in a doubling Vec); the session route additionally buffers the wire bytes".to_string(),
            "a worker killed by a signal while a case is open is attributed to that case (stack overflow = SIGABRT/SIGSEGV with 'overflowed its stack')".to_string(),
        ]
    }
    fn required_counters(&self, tier: Tier) -> Vec<String> {
        let mut v = vec!["count_field_inputs".to_string(), "homogeneous_run_inputs".to_string(), "marker_x_declared_length_inputs".to_string(), "random_or_mutated_inputs".into(), "route_amf0".into(), "route_payload".into(), "route_session".into(), "decoded_err".into(), "decoded_ok".into()];
        for d in Self::depths(tier) {
            v.push(format!("ladder_depth_{}", d));
        }
        v
    }
    fn death_signature(&self, how: &str) -> String {
        format!("worker-died-while-decoding:{}", how)
    }
}
