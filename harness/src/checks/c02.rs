//! C02 - client and server sessions interoperate: media arrives byte-exact and tagged.
//! A real ClientSession and a real ServerSession over a simulated network; history checker.

use super::sessdrv::{self, Item, Mode, Received, Scenario};
use crate::fw::{Check, Out, Plan, Tier};
use crate::rng::{mix, Rng};
use rml_rtmp::sessions::{ClientSessionConfig, ServerSessionConfig};
use serde_json::json;

pub struct C02;

const CHUNKS: [u32; 12] = [1, 2, 3, 127, 128, 129, 4096, 4096, 65536, 0xFFFFFF, 0x1000000, 0x7FFF_FFFF];
const WINDOWS: [u32; 9] = [1, 2, 100, 5000, 2_500_000, 2_500_000, 0x8000_0000, 0xFFFF_FFFF, 1_073_741_824];

pub fn gen_items(rng: &mut Rng, max_items: usize, chunk: usize, max_payload: usize) -> Vec<Item> {
    let n = match rng.below(6) {
        0 => 0,
        1 => 1,
        _ => rng.usize(1, max_items),
    };
    let mut ts: u32 = rng.u32_boundary();
    let mut items: Vec<Item> = Vec::with_capacity(n);
    for _ in 0..n {
        let step = match rng.below(11) {
            0 => 0,
            1 => 33,
            8 => 0xFFFFFF,
            9 => ts,            // new timestamp = 2 x previous
            10 => 33,
            2 => 0xFFFF_FFFF, // backwards
            3 => 0x1000000,
            4 => rng.u32(),
            _ => rng.below(100) as u32,
        };
        // an exact repeat of the previous item (same kind, bytes and timestamp) is a separate item
        if !items.is_empty() && rng.chance(1, 7) {
            let prev: Item = items.last().unwrap().clone();
            items.push(prev);
            continue;
        }
        ts = ts.wrapping_add(step);
        if rng.chance(1, 8) {
            items.push(Item::Meta(sessdrv::default_metadata(rng)));
            continue;
        }
        let len = match rng.below(12) {
            0 => 0,
            1 => 1,
            2 => chunk.saturating_sub(1),
            3 => chunk,
            4 => chunk.saturating_add(1),
            5 => 65536,
            6 if rng.chance(1, 6) => 200_000,
            7 => rng.usize(0, 4000),
            _ => rng.usize(0, 200),
        }
        .min(max_payload);
        let mut data = vec![0u8; len];
        rng.fill(&mut data);
        let drop = rng.chance(1, 4);
        let audio = rng.coin();
        rng.flv_prefix(if audio { 8 } else { 9 }, &mut data);
        if audio {
            items.push(Item::Audio { data, ts, drop });
        } else {
            items.push(Item::Video { data, ts, drop });
        }
    }
    items
}

pub fn gen_name(rng: &mut Rng, allow_slash_end: bool) -> String {
    if rng.chance(1, 6) {
        // decorations players and servers know: container prefixes, extensions, instance names,
        // query strings - a name is a name, byte for byte
        return rng
            .pick(&["mp4:sample.mp4", "flv:stream", "mp3:track", "MP4:Upper.mp4", "mp4:", "key.flv", "key.mp4", "key.f4v", "_definst_/key", "app/_definst_", "key?auth=abc", "@live", "rtmp://host/app/key", "live ", " live", "LIVE", "key#frag", "..", "a/../b"])
            .to_string();
    }
    match rng.below(8) {
        0 => "live".to_string(),
        1 => "a".to_string(),
        2 => "app/instance".to_string(),
        3 => "é中😀 space".to_string(),
        4 if allow_slash_end => {
            // (application names only) a trailing slash, or no name at all
            if rng.chance(1, 3) {
                String::new()
            } else {
                "live/".to_string()
            }
        }
        5 => {
            // up to 300 bytes, ASCII or multi-byte characters behind 0-3 ASCII ones (so that every
            // byte offset falls inside a character in some name)
            let unit = *rng.pick(&["x", "x", "\u{e9}", "\u{4e2d}", "\u{1f600}"]);
            format!("{}{}", "a".repeat(rng.usize(0, 3)), unit.repeat(rng.usize(1, 300 / unit.len())))
        }
        6 => "stream?token=abc&x=1".to_string(),
        _ => format!("k{}", rng.below(100000)),
    }
}

pub fn gen_scenario(rng: &mut Rng, big: bool) -> Scenario {
    let mut client_cfg = ClientSessionConfig::new();
    let mut server_cfg = ServerSessionConfig::new();
    client_cfg.chunk_size = if rng.chance(1, 5) { rng.range(1, 0x7FFF_FFFF) as u32 } else { *rng.pick(&CHUNKS) };
    server_cfg.chunk_size = if rng.chance(1, 5) { rng.range(1, 0x7FFF_FFFF) as u32 } else { *rng.pick(&CHUNKS) };
    client_cfg.window_ack_size = *rng.pick(&WINDOWS);
    server_cfg.window_ack_size = *rng.pick(&WINDOWS);
    server_cfg.peer_bandwidth = rng.u32_boundary();
    client_cfg.playback_buffer_length_ms = rng.u32_boundary();
    server_cfg.send_on_bw_done_message_on_start = rng.coin();
    if rng.chance(1, 3) {
        client_cfg.tc_url = Some(format!("rtmp://host/{}", gen_name(rng, false)));
    }
    let mode = *rng.pick(&[Mode::PublishLive, Mode::PublishLive, Mode::PublishRecord, Mode::PublishAppend, Mode::Play, Mode::Play]);
    let sender_chunk = if mode == Mode::Play { server_cfg.chunk_size } else { client_cfg.chunk_size } as usize;
    // tiny chunk sizes make every payload byte cost a chunk header: keep payloads proportionate
    let max_payload = if sender_chunk <= 3 { 3000 } else if big { 200_000 } else { 70_000 };
    let items = gen_items(rng, if big { 60 } else { 14 }, sender_chunk, max_payload);
    let sched = rng.below(6);
    Scenario {
        app: gen_name(rng, true),
        key: gen_name(rng, false),
        mode,
        items,
        client_cfg,
        server_cfg,
        sched,
        accept_delay: *rng.pick(&[0u64, 0, 1, 5, 40]),
        burst: *rng.pick(&[1usize, 1, 3, 100]),
        max_piece: *rng.pick(&[2usize, 17, 200, 4096, 100_000]),
    }
}

pub fn check_outcome(sc: &Scenario, o: &sessdrv::Outcome, out: &mut Out) -> bool {
    let witness = || json!({"scenario": sessdrv::scenario_json(sc), "steps": o.steps, "handle_input_calls": o.handle_input_calls});
    if let Some((sig, d)) = &o.problem {
        out.violation(sig, json!({"detail": d, "history": witness()}));
        return false;
    }
    // The server tidies the requested application name at its ends (a trailing slash today): the
    // name it surfaces with the connection request is "the requested application name" for
    // everything that follows, provided it is the requested one up to slashes and white space at
    // the ends.
    let trim = |x: &str| x.trim().trim_matches('/').trim().to_string();
    let want_app = match o.connect_requested_app.as_deref() {
        Some(a) if trim(a) == trim(&sc.app) => a.to_string(),
        _ => sc.app.strip_suffix('/').unwrap_or(&sc.app).to_string(),
    };
    if !o.connected_client || o.connect_requested_app.as_deref() != Some(&want_app) {
        out.violation("connect-phase-wrong", json!({"server_saw_app": o.connect_requested_app, "history": witness()}));
        return false;
    }
    let want_kind = match sc.mode {
        Mode::Play => "play".to_string(),
        Mode::PublishLive => "publish:Live".to_string(),
        Mode::PublishRecord => "publish:Record".to_string(),
        Mode::PublishAppend => "publish:Append".to_string(),
    };
    match &o.activity_requested {
        Some((kind, app, key)) if *kind == want_kind && *app == want_app && *key == sc.key => {}
        other => {
            out.violation("activity-request-surfaced-with-wrong-kind-app-or-key", json!({"surfaced": format!("{:?}", other), "wanted": [want_kind, want_app, sc.key.clone()], "history": witness()}));
            return false;
        }
    }
    if !o.activity_accepted_client {
        out.violation("client-never-saw-the-request-accepted", witness());
        return false;
    }
    // media history: exactly once, in order, byte exact, same timestamp, right tags
    let is_play = sc.mode == Mode::Play;
    let mut i = 0usize;
    for (app, key, r) in o.received.iter() {
        if i >= sc.items.len() {
            out.violation("media-history:extra-item", json!({"index": i, "history": witness()}));
            return false;
        }
        let ok = match (&sc.items[i], r) {
            (Item::Meta(a), Received::Meta(b)) => a == b,
            (Item::Audio { data: a, ts: t, .. }, Received::Audio { data: b, ts: u }) => a == b && t == u,
            (Item::Video { data: a, ts: t, .. }, Received::Video { data: b, ts: u }) => a == b && t == u,
            _ => false,
        };
        if !ok {
            let class = match (&sc.items[i], r) {
                (Item::Meta(_), Received::Meta(_)) => "metadata-differs",
                (Item::Audio { data: a, .. }, Received::Audio { data: b, .. }) | (Item::Video { data: a, .. }, Received::Video { data: b, .. }) => {
                    if a != b {
                        "payload-differs"
                    } else {
                        "timestamp-differs"
                    }
                }
                _ => "kind-differs-or-item-lost-or-reordered",
            };
            out.violation(
                &format!("media-history:{}", class),
                json!({"index": i, "sent": sc.items[i].brief(), "received": format!("{:?}", r).chars().take(200).collect::<String>(), "history": witness()}),
            );
            return false;
        }
        if !is_play && (*app != want_app || *key != sc.key) {
            out.violation("media-tagged-with-wrong-app-or-key", json!({"index": i, "app": app, "key": key, "history": witness()}));
            return false;
        }
        i += 1;
    }
    if i != sc.items.len() {
        out.violation("media-history:items-missing", json!({"received": i, "sent": sc.items.len(), "first_missing": sc.items[i].brief(), "history": witness()}));
        return false;
    }
    let want_fin = (if is_play { "play" } else { "publish" }.to_string(), want_app.clone(), sc.key.clone());
    if o.finished.len() != 1 || o.finished[0] != want_fin {
        out.violation("finished-event-missing-duplicated-or-wrong", json!({"finished": format!("{:?}", o.finished), "history": witness()}));
        return false;
    }
    true
}

impl Check for C02 {
    fn id(&self) -> &'static str {
        "C02"
    }
    fn plan(&self, tier: Tier) -> Plan {
        let mut p = Plan::new(tier.pick(40_000, 4_000_000), tier.pick(30.0, 420.0));
        p.cpu_budget_s = 120.0;
        p.mandatory = 4;
        p
    }
    fn run_case(&self, tier: Tier, k: u64, rng: &mut Rng, out: &mut Out) {
        let _cg = ClockGuard;
        let mut sc = gen_scenario(rng, tier == Tier::Thorough && k % 20 == 0);
        if k < 2 {
            // more than 16 MiB (the largest single message) arriving in ONE input call: 280 items
            // of 64 KiB pushed in one burst, everything available delivered at once
            sc.mode = if k == 0 { Mode::PublishLive } else { Mode::Play };
            sc.client_cfg.chunk_size = 60_000;
            sc.server_cfg.chunk_size = 60_000;
            sc.client_cfg.window_ack_size = 2_500_000;
            sc.server_cfg.window_ack_size = 2_500_000;
            sc.sched = 1;
            sc.burst = 1000;
            sc.accept_delay = 0;
            let a = rng.next();
            sc.items = (0..280u32)
                .map(|i| {
                    let data: Vec<u8> = (0..65_536usize).map(|j| ((j as u64).wrapping_mul(0x9E37_79B9).wrapping_add(a + i as u64) >> 13) as u8).collect();
                    if i % 7 == 3 {
                        Item::Audio { data, ts: 40 * i, drop: false }
                    } else {
                        Item::Video { data, ts: 40 * i, drop: false }
                    }
                })
                .collect();
            out.count("scenarios_with_more_than_16_MiB_in_one_call", 1);
        } else if k < 4 {
            // more than a thousand messages arriving in ONE input call: 1,500 one-byte items pushed
            // in one burst, everything available delivered at once
            sc.mode = if k == 2 { Mode::PublishLive } else { Mode::Play };
            sc.client_cfg.chunk_size = 4096;
            sc.server_cfg.chunk_size = 4096;
            sc.client_cfg.window_ack_size = 2_500_000;
            sc.server_cfg.window_ack_size = 2_500_000;
            sc.sched = 1;
            sc.burst = 2000;
            sc.accept_delay = 0;
            sc.items = (0..1500u32).map(|i| if i % 2 == 0 { Item::Audio { data: vec![i as u8], ts: 20 * i, drop: false } } else { Item::Video { data: vec![i as u8], ts: 20 * i, drop: false } }).collect();
            out.count("scenarios_with_more_than_1000_messages_in_one_call", 1);
        }
        out.eval(1);
        let o = sessdrv::run_scenario(&sc, rng, false);
        out.count("handle_input_calls", o.handle_input_calls);
        out.count("scheduler_steps", o.steps);
        out.maxv("max_bytes_client_to_server", o.bytes_c2s);
        out.maxv("largest_single_input_call_bytes", o.largest_input_call);
        out.maxv("max_bytes_server_to_client", o.bytes_s2c);
        if check_outcome(&sc, &o, out) {
            out.count("scenarios_completed", 1);
            out.count(&format!("mode_{:?}", sc.mode), 1);
            out.count("items_delivered_exactly", sc.items.len() as u64);
            out.count(&format!("scheduler_{}", sc.sched), 1);
            if sc.items.iter().any(|i| matches!(i, Item::Audio{data, ..} | Item::Video{data, ..} if data.is_empty())) {
                out.count("scenarios_with_zero_length_media", 1);
            }
            if sc.client_cfg.window_ack_size <= 100 || sc.server_cfg.window_ack_size <= 100 {
                out.count("scenarios_with_tiny_window", 1);
            }
            if sc.app.ends_with('/') {
                out.count("scenarios_with_app_name_normalised", 1);
            }
        }
        let cc = |x: u32| match x {
            1 => 0u64,
            2..=127 => 1,
            128 => 2,
            129..=65536 => 3,
            _ => 4,
        };
        let wc = |x: u32| match x {
            0..=100 => 0u64,
            101..=10_000_000 => 1,
            _ => 2,
        };
        let size_classes: u64 = sc.items.iter().fold(0u64, |a, i| match i {
            Item::Meta(_) => a | 1,
            Item::Audio { data, .. } | Item::Video { data, .. } => a | (1 << (1 + (data.len() > 0) as u64 + (data.len() > 128) as u64 + (data.len() > 4096) as u64 + (data.len() > 65536) as u64)),
        });
        out.shape(mix(mix(sc.mode as u64, cc(sc.client_cfg.chunk_size) * 8 + cc(sc.server_cfg.chunk_size)), mix(wc(sc.client_cfg.window_ack_size) * 4 + wc(sc.server_cfg.window_ack_size), mix(size_classes, sc.sched))));
        out.sample(|| json!({"scenario": sessdrv::scenario_json(&sc), "steps": o.steps, "bytes_c2s": o.bytes_c2s, "bytes_s2c": o.bytes_s2c, "completed": o.completed}));
    }
    fn rule(&self) -> String {
        "cases 0 and 1: 280 items of 64 KiB pushed in one burst and delivered in one input call (more than 16 MiB at once), publish and play; cases 2 and 3: 1,500 one-byte items in one burst and one input call. Otherwise one scripted scenario per case: connect(app) -> publish(key, live|record|append) or play(key) -> 0-14 (thorough: up to 60) items {metadata | audio | video} with payload sizes {0, 1, chunk-1, chunk, chunk+1, 64 KiB, 200 KiB, random} and arbitrary u32 timestamps (rising, falling, wrapping), droppable flags set but nothing dropped -> stop. Client and server chunk sizes from {1,2,3,127,128,129,4096,65536,2^24-1,2^24,2^31-1, uniform}; window sizes from {1,2,100,5000,2.5M,2^30,2^31,2^32-1}; random peer bandwidth, buffer length, onBWDone on/off, tcUrl. Scheduler styles: byte-by-byte, everything available, random pieces, mixed, and two starvation patterns; server application accepts after 0-40 steps; sender bursts of 1-100 items. distinct = (mode, chunk-size class pair, window class pair, item size classes, scheduler).".to_string()
    }
    fn assumptions(&self) -> Vec<String> {
        vec![
            "the server application accepts every request; all packets of a result list are queued before reacting to its events (documented contract: send packets in the order produced)".to_string(),
            "application names are tidied at their ends by the server (a trailing '/' today; slashes and white space at the ends are accepted); everything after the connection request is checked against the name surfaced with it".to_string(),
            "termination is by script completion, not quiescence (tiny windows make the sessions acknowledge each other's acknowledgements for ever)".to_string(),
            "session clocks are virtual (verif_hooks) so runs are reproducible".to_string(),
        ]
    }
    fn required_counters(&self, _tier: Tier) -> Vec<String> {
        vec![
            "scenarios_completed".into(),
            "scenarios_with_more_than_16_MiB_in_one_call".into(),
            "scenarios_with_more_than_1000_messages_in_one_call".into(),
            "mode_Play".into(),
            "mode_PublishLive".into(),
            "mode_PublishRecord".into(),
            "mode_PublishAppend".into(),
            "scenarios_with_zero_length_media".into(),
            "scenarios_with_tiny_window".into(),
            "scheduler_0".into(),
            "scheduler_1".into(),
            "scheduler_4".into(),
        ]
    }
}

pub struct ClockGuard;
impl Drop for ClockGuard {
    fn drop(&mut self) {
        rml_rtmp::verif_hooks::set_clock_ms(None);
        rml_rtmp::verif_hooks::set_clock_offset_ms(0);
    }
}
