//! Shared generator of serializer histories (C01, C07, C08, C15) and the driver that pushes a
//! history through the real `ChunkSerializer`.

use crate::fw::{lib_call, Out};
use crate::refs::chunk::Msg;
use crate::rng::Rng;
use rml_rtmp::chunk_io::{ChunkSerializer, Packet};
use rml_rtmp::time::RtmpTimestamp;
use serde_json::{json, Value};

#[derive(Clone, Debug)]
pub enum Op {
    Msg { m: Msg, force: bool, drop: bool },
    SetChunk { size: u32, ts: u32 },
}

impl Op {
    /// the message a receiver must see for this operation
    pub fn expected(&self) -> Msg {
        match self {
            Op::Msg { m, .. } => m.clone(),
            Op::SetChunk { size, ts } => Msg {
                type_id: 1,
                msid: 0,
                ts: *ts,
                data: size.to_be_bytes().to_vec(),
            },
        }
    }
    pub fn to_json(&self) -> Value {
        match self {
            Op::Msg { m, force, drop } => json!({"msg": m.brief(), "force_uncompressed": force, "can_be_dropped": drop}),
            Op::SetChunk { size, ts } => json!({"set_max_chunk_size": size, "ts": ts}),
        }
    }
}

/// A call the serializer must refuse (chunk size 0 or above 2^31-1), made right before operation
/// `i` in about one operation of eleven: a refused call must leave no trace in the compression
/// state.  Deterministic in (i, op) so that consumers and witnesses need no extra bookkeeping.
pub fn refused_call_before(i: usize, op: &Op) -> Option<(u32, u32)> {
    let (ts, len) = match op {
        Op::Msg { m, .. } => (m.ts, m.data.len() as u64),
        Op::SetChunk { size, ts } => (*ts, *size as u64),
    };
    let h = crate::rng::mix(crate::rng::mix(i as u64, ts as u64), len);
    if h % 11 != 0 {
        return None;
    }
    let size = [0u32, 0x8000_0000, 0xFFFF_FFFF, 0][(h / 11 % 4) as usize];
    let t = match h / 44 % 3 {
        0 => ts,
        1 => 0,
        _ => (h >> 20) as u32,
    };
    Some((size, t))
}

pub fn ops_json(ops: &[Op]) -> Value {
    Value::Array(
        ops.iter()
            .enumerate()
            .map(|(i, o)| {
                let mut j = o.to_json();
                if let (Some((size, ts)), Some(obj)) = (refused_call_before(i, o), j.as_object_mut()) {
                    obj.insert("preceded_by_refused_set_max_chunk_size".into(), json!({"size": size, "ts": ts}));
                }
                j
            })
            .collect(),
    )
}

pub struct GenCfg {
    pub max_ops: usize,
    /// user messages may carry type id 1 (only meaningful where chunk sizes are applied by position)
    pub allow_user_type1: bool,
    /// droppable probability per 100
    pub drop_pct: u64,
    /// allow payloads up to this many bytes (rare large classes are scaled to it)
    pub max_payload: usize,
    /// cap on chunks per message (keeps tiny chunk sizes x large payloads affordable)
    pub max_chunks: usize,
    pub set_chunk_pct: u64,
}

const TYPES: [u8; 20] = [8, 9, 8, 9, 18, 20, 4, 3, 5, 6, 2, 0, 7, 15, 17, 19, 22, 255, 10, 16];
const CHUNK_SIZES: [u32; 14] = [1, 2, 3, 127, 128, 129, 1000, 4096, 65536, 0xFFFFFE, 0xFFFFFF, 0x1000000, 0x7FFF_FFFF, 31];

pub fn gen_history(rng: &mut Rng, cfg: &GenCfg) -> Vec<Op> {
    let n = match rng.below(6) {
        0 => rng.usize(1, 3),
        1 => cfg.max_ops,
        _ => rng.usize(1, cfg.max_ops),
    };
    let mut ops: Vec<Op> = Vec::with_capacity(n);
    let mut cs: usize = 128;
    let mut last: Option<Msg> = None;
    let mut last_step: u32 = 0;
    let profile_drop = if cfg.drop_pct == 0 { 0 } else { *rng.pick(&[cfg.drop_pct / 2, cfg.drop_pct, (cfg.drop_pct * 3 / 2).min(90)]) };
    let profile_force = *rng.pick(&[0u64, 5, 15, 40]);
    for _ in 0..n {
        if rng.below(100) < cfg.set_chunk_pct {
            let size = match rng.below(5) {
                0 => rng.range(1, 0x7FFF_FFFF) as u32,
                1 => rng.range(1, 300) as u32,
                _ => *rng.pick(&CHUNK_SIZES),
            };
            let ts = if rng.coin() { 0 } else { rng.u32_boundary() };
            ops.push(Op::SetChunk { size, ts });
            cs = size as usize;
            // a SetChunkSize message is itself a message on csid 2 / msid 0: it becomes `last`
            last = Some(Msg { type_id: 1, msid: 0, ts, data: size.to_be_bytes().to_vec() });
            continue;
        }
        let (type_id, msid, base_ts, same_len) = match &last {
            Some(l) if rng.chance(3, 5) => (
                if rng.chance(4, 5) { l.type_id } else { *rng.pick(&TYPES) },
                if rng.chance(5, 6) { l.msid } else { rng.u32_boundary() },
                l.ts,
                if rng.chance(1, 2) { Some(l.data.len()) } else { None },
            ),
            // message stream ids include the values the serializer uses as chunk stream ids
            Some(l) => (*rng.pick(&TYPES), if rng.coin() { l.msid } else { *rng.pick(&[0u32, 1, 1, 5, 2, 3, 4, 6, 0xFFFF_FFFF]) }, l.ts, None),
            None => (*rng.pick(&TYPES), *rng.pick(&[0u32, 1, 1, 5, 2, 3, 4, 6, 0xFFFF_FFFF]), rng.u32_boundary(), None),
        };
        let mut type_id = if rng.chance(1, 30) { rng.u8() } else { type_id };
        if type_id == 1 && !cfg.allow_user_type1 {
            type_id = 2;
        }
        if cfg.allow_user_type1 && rng.chance(1, 40) {
            type_id = 1;
        }
        let step: u32 = match rng.below(16) {
            0 => 0,
            1 | 2 => last_step,
            14 => base_ts,                    // new timestamp = 2 x previous (delta equals the previous absolute value)
            15 => base_ts.wrapping_add(last_step), // delta = previous absolute + previous delta
            3 => 1,
            4 => 33,
            5 => 40,
            6 => 0xFFFFFE,
            7 => 0xFFFFFF,
            8 => 0x1000000,
            9 => 0xFFFF_FFFF,                // one step backwards
            10 => 0u32.wrapping_sub(1000),   // 1000 ms backwards
            11 => rng.u32(),
            12 => 0x7FFF_FFFF,
            _ => rng.below(2000) as u32,
        };
        let ts = if rng.chance(1, 12) { rng.u32_boundary() } else { base_ts.wrapping_add(step) };
        last_step = ts.wrapping_sub(base_ts);
        let cap = cfg.max_payload.min(cs.saturating_mul(cfg.max_chunks)).min(0xFFFFFF);
        let len = match same_len {
            Some(l) if l <= cap => l,
            _ => match rng.below(16) {
                0 => 0,
                1 => 1,
                2 => cs.saturating_sub(1),
                3 => cs,
                4 => cs.saturating_add(1),
                5 => cs.saturating_mul(*rng.pick(&[2usize, 2, 3, 4, 7])),
                6 => cs.saturating_mul(2).saturating_add(1),
                7 => cs.saturating_mul(3).saturating_sub(1),
                8 => rng.usize(0, cap.min(70_000)),
                9 if rng.chance(1, 4) => rng.usize(0, cap),
                10 if rng.chance(1, 20) => cap,
                _ => rng.usize(0, 48),
            },
        }
        .min(cap);
        let len = if matches!(type_id, 1 | 2 | 3 | 5 | 6) && same_len.is_none() && rng.chance(1, 2) { (4 + (type_id == 6) as usize).min(cap) } else { len };
        let mut data = vec![0u8; len];
        if len <= 4096 {
            rng.fill(&mut data);
        } else {
            // cheap but position-sensitive filler for large payloads
            let a = rng.next();
            for (i, b) in data.iter_mut().enumerate() {
                *b = ((i as u64).wrapping_mul(0x9E37_79B9).wrapping_add(a) >> 13) as u8;
            }
        }
        rng.flv_prefix(type_id, &mut data);
        // protocol-control type ids carried as ordinary payloads: bodies that spell what such a
        // message would say - chunk stream ids in use (the serializer uses 2..6), sizes 0 / 1 /
        // top bit set, windows - must come back as the bytes they are
        if matches!(type_id, 1 | 2 | 3 | 5 | 6) && data.len() >= 4 && rng.chance(1, 2) {
            let v = *rng.pick(&[0u32, 1, 2, 3, 4, 5, 6, 7, 64, 320, 128, 0x8000_0000, 0x8000_0001, 0xFFFF_FFFF]);
            data[..4].copy_from_slice(&v.to_be_bytes());
        }
        let m = Msg { type_id, msid, ts, data };
        last = Some(m.clone());
        ops.push(Op::Msg {
            m,
            force: rng.below(100) < profile_force,
            drop: rng.below(100) < profile_drop,
        });
    }
    ops
}

pub struct Serialized {
    /// one entry per op, in order; None when the serializer refused or panicked
    pub packets: Vec<Option<Packet>>,
    pub all_ok: bool,
}

/// Push a history through a fresh real serializer.  Panics become violations of `out`.
pub fn serialize_history(ops: &[Op], out: &mut Out, witness: &dyn Fn() -> Value) -> Serialized {
    let mut ser = ChunkSerializer::new();
    let mut packets = Vec::with_capacity(ops.len());
    let mut all_ok = true;
    for (i, op) in ops.iter().enumerate() {
        if let Some((size, ts)) = refused_call_before(i, op) {
            let r = lib_call(out, "ChunkSerializer::set_max_chunk_size", || json!({"before_op_index": i, "refused_size": size, "history": witness()}), || {
                ser.set_max_chunk_size(size, RtmpTimestamp::new(ts)).is_ok()
            });
            match r {
                Some(false) => out.count("refused_calls_interleaved", 1),
                Some(true) => {
                    // whether out-of-range sizes are refused is C19's clause; this history ends here
                    out.count("out_of_range_chunk_size_accepted_history_not_judged", 1);
                    return Serialized { packets, all_ok: false };
                }
                None => return Serialized { packets, all_ok: false },
            }
        }
        let r = match op {
            Op::Msg { m, force, drop } => {
                let p = crate::adapt::to_payload(m);
                lib_call(out, "ChunkSerializer::serialize", || json!({"op_index": i, "history": witness()}), || {
                    ser.serialize(&p, *force, *drop).map_err(|e| format!("{:?}", e))
                })
            }
            Op::SetChunk { size, ts } => lib_call(out, "ChunkSerializer::set_max_chunk_size", || json!({"op_index": i, "history": witness()}), || {
                ser.set_max_chunk_size(*size, RtmpTimestamp::new(*ts)).map_err(|e| format!("{:?}", e))
            }),
        };
        match r {
            Some(Ok(p)) => packets.push(Some(p)),
            Some(Err(e)) => {
                all_ok = false;
                out.violation(
                    "serializer-refuses-acceptable-operation",
                    json!({"op_index": i, "op": op.to_json(), "error": e, "history": witness()}),
                );
                packets.push(None);
                break;
            }
            None => {
                all_ok = false;
                packets.push(None);
                break;
            }
        }
    }
    Serialized { packets, all_ok }
}

/// The size a receiver that honours decoded chunk-size changes takes from a decoded
/// announcement (None: not a usable announcement).
pub fn announced_size(m: &Msg) -> Option<usize> {
    if m.type_id == 1 && m.data.len() == 4 {
        let v = u32::from_be_bytes([m.data[0], m.data[1], m.data[2], m.data[3]]) & 0x7FFF_FFFF;
        if v >= 1 {
            return Some(v as usize);
        }
    }
    None
}

/// The statements speak of the application's messages; the announcement a chunk-size change
/// produces is the serializer's own message.  It must be a SetChunkSize message on message stream
/// 0, but which size it announces (the requested one, or an equivalent or different one the
/// serializer then really uses) is left to the serializer: the expected announcement takes the
/// decoded body, and the receiver is told the decoded size.
pub fn accept_announced_sizes(expected: &mut [Msg], got: &[Msg], is_announcement: &[bool], out: &mut Out) {
    for i in 0..expected.len().min(got.len()) {
        if is_announcement[i] && announced_size(&got[i]).is_some() && got[i].data != expected[i].data {
            out.count("announced_chunk_size_differs_from_requested", 1);
            expected[i].data = got[i].data.clone();
        }
    }
}
