//! C19 - every configuration value is either honoured or refused, never a hang.
//! Boundary-value enumeration; hangs and runaway allocation are observed as worker events by the
//! supervisor (CPU-time watchdog, allocator ceiling), refusals and follow-up scenarios in-process.

use super::c01::lib_decode_partitioned;
use super::c02::ClockGuard;
use super::sessdrv::{self, Item, Mode, Scenario};
use crate::alloc;
use crate::fw::{lib_call, Check, Out, Plan, Tier};
use crate::refs::chunk::Msg;
use crate::rng::{mix, Rng};
use rml_rtmp::chunk_io::{ChunkDeserializer, ChunkSerializer};
use rml_rtmp::sessions::{ClientSessionConfig, ServerSessionConfig};
use rml_rtmp::time::RtmpTimestamp;
use serde_json::{json, Value};

pub struct C19;

#[derive(Clone, Debug)]
enum Case {
    SerSet(u32),
    DeserSet(u64),
    ServerChunk(u32),
    ClientChunk(u32),
    ServerWindow(u32),
    ClientWindow(u32),
    PeerBandwidth(u32),
    BufferLength(u32),
    SerPayload(usize),
    ClientPayload(usize),
    ServerPayload(usize),
    AmfString(usize),
    AmfName(usize),
    StringCfg(&'static str, usize),
    /// a chunk size announced by the peer to a session (server?), as the first message completed in
    /// an input call or after another one
    PeerChunk(u32, bool, bool),
    /// a message with type id 1 and this 4-byte body handed to plain serialize() (not a chunk-size
    /// change of the serializer: just a payload), followed by further messages
    SerType1(u32),
}

const CHUNK_VALUES: [u32; 16] = [0, 1, 2, 3, 127, 128, 129, 65536, 0xFFFFFF, 0x1000000, 0x7FFF_FFFE, 0x7FFF_FFFF, 0x8000_0000, 0x8000_0001, 0xFFFF_FFFE, 0xFFFF_FFFF];
const U32_VALUES: [u32; 8] = [0, 1, 2, 100, 0x7FFF_FFFF, 0x8000_0000, 0xFFFF_FFFE, 0xFFFF_FFFF];
const PAYLOADS: [usize; 7] = [0, 16_777_214, 16_777_215, 16_777_216, 16_777_217, 20_000_000, 33_554_432];
const STR_LENS: [usize; 7] = [0, 1, 65534, 65535, 65536, 65537, 70000];
const STR_FIELDS: [&str; 5] = ["fms_version", "flash_version", "tc_url", "app", "stream_key"];

fn fixed_cases() -> Vec<Case> {
    let mut v = Vec::new();
    for c in CHUNK_VALUES {
        v.push(Case::SerSet(c));
        v.push(Case::DeserSet(c as u64));
        v.push(Case::ServerChunk(c));
        v.push(Case::ClientChunk(c));
    }
    for c in CHUNK_VALUES {
        for server in [true, false] {
            for first in [true, false] {
                v.push(Case::PeerChunk(c, server, first));
            }
        }
    }
    for c in CHUNK_VALUES {
        v.push(Case::SerType1(c));
    }
    for big in [1u64 << 32, (1u64 << 32) + 1, 1u64 << 40, u64::MAX >> 1, u64::MAX] {
        v.push(Case::DeserSet(big));
    }
    for x in U32_VALUES {
        v.push(Case::ServerWindow(x));
        v.push(Case::ClientWindow(x));
        v.push(Case::PeerBandwidth(x));
        v.push(Case::BufferLength(x));
    }
    for p in PAYLOADS {
        for _ in 0..4 {
            // repeated: the chunk size in force is drawn per case
            v.push(Case::SerPayload(p));
        }
        for _ in 0..2 {
            v.push(Case::ClientPayload(p));
            v.push(Case::ServerPayload(p));
        }
    }
    for l in STR_LENS {
        for _ in 0..4 {
            // repeated: the character width used to build the string is drawn per case
            v.push(Case::AmfString(l));
            v.push(Case::AmfName(l));
        }
        for f in STR_FIELDS {
            v.push(Case::StringCfg(f, l));
        }
    }
    v
}

fn chunk_in_range(v: u64) -> bool {
    v >= 1 && v <= 0x7FFF_FFFF
}

fn small_scenario(rng: &mut Rng, mode: Mode) -> Scenario {
    let items = vec![
        Item::Meta(sessdrv::default_metadata(rng)),
        Item::Audio { data: rng.bytes(5), ts: 10, drop: false },
        Item::Video { data: rng.bytes(300), ts: 20, drop: true },
        Item::Audio { data: vec![], ts: 30, drop: false },
    ];
    Scenario {
        app: "live".into(),
        key: "key".into(),
        mode,
        items,
        client_cfg: ClientSessionConfig::new(),
        server_cfg: ServerSessionConfig::new(),
        sched: 3,
        accept_delay: 0,
        burst: 2,
        max_piece: 5000,
    }
}

/// Runs the scenario and classifies: completed-and-correct / refused-with-error / violation.
/// Returns Some(true) completed, Some(false) refused by an Err, None violation already reported.
fn scenario_outcome(sc: &Scenario, rng: &mut Rng, out: &mut Out, what: &Value) -> Option<bool> {
    let mark = alloc::mark();
    let o = sessdrv::run_scenario(sc, rng, false);
    let peak = alloc::peak_since(mark);
    let payload: usize = sc.items.iter().map(|i| match i {
        Item::Audio { data, .. } | Item::Video { data, .. } => data.len(),
        _ => 0,
    }).sum::<usize>() + sc.app.len() + sc.key.len() + sc.server_cfg.fms_version.len() + sc.client_cfg.flash_version.len();
    out.maxv("max_peak_alloc_scenario", peak as u64);
    if peak > 64 * payload + (64 << 20) {
        out.violation("memory-bound-exceeded", json!({"peak": peak, "payload": payload, "case": what}));
        return None;
    }
    match &o.problem {
        None => {
            if super::c02::check_outcome(sc, &o, out) {
                Some(true)
            } else {
                None
            }
        }
        Some((sig, d)) => {
            if sig.starts_with("panic:") {
                out.violation(sig, json!({"detail": d, "case": what}));
                None
            } else if sig.ends_with("-fails") || sig.ends_with("-error") {
                Some(false)
            } else {
                out.violation(&format!("accepted-value-but-session-does-not-work:{}", sig), json!({"detail": d, "case": what}));
                None
            }
        }
    }
}

fn judge(in_range: bool, strict_in_range: bool, r: Option<bool>, out: &mut Out, what: &Value) {
    match (in_range, r) {
        (_, None) => {}
        (true, Some(true)) => out.count("in_range_value_honoured", 1),
        (true, Some(false)) => {
            if strict_in_range {
                out.violation("in-range-value-refused", what.clone());
            } else {
                out.count("in_range_boundary_string_refused_downstream", 1);
            }
        }
        (false, Some(false)) => out.count("out_of_range_value_refused", 1),
        (false, Some(true)) => out.violation("out-of-range-value-accepted", what.clone()),
    }
}

/// "Refused" means not applied: after a refused `set_max_chunk_size` the same serializer and the
/// same deserializer go on working at the size that was in force before (the default, or an
/// accepted size set earlier).
fn refused_leaves_codec_working(refused: u64, out: &mut Out, what: &Value) {
    for before in [None, Some(4096u32), Some(5u32)] {
        let r = lib_call(out, "codec after a refused chunk size", || what.clone(), || -> Result<(), String> {
            let size_in_force = before.unwrap_or(128) as usize;
            let msgs: Vec<Msg> = [300usize, 3, 0, 2 * size_in_force + 1]
                .iter()
                .enumerate()
                .map(|(i, l)| Msg { type_id: 9, msid: 1, ts: 40 * i as u32, data: (0..*l).map(|x| (x * 13 + i) as u8).collect() })
                .collect();
            // serializer side
            if refused <= u32::MAX as u64 {
                let mut ser = ChunkSerializer::new();
                let mut bytes = Vec::new();
                let mut sent = Vec::new();
                let mut scs = Vec::new();
                if let Some(b) = before {
                    bytes.extend(ser.set_max_chunk_size(b, RtmpTimestamp::new(0)).map_err(|e| format!("{:?}", e))?.bytes);
                    sent.push(Msg { type_id: 1, msid: 0, ts: 0, data: b.to_be_bytes().to_vec() });
                    scs.push(Some(b));
                }
                match ser.set_max_chunk_size(refused as u32, RtmpTimestamp::new(0)) {
                    Ok(_) => return Ok(()), // accepted: judged elsewhere
                    Err(_) => {}
                }
                for m in msgs.iter() {
                    bytes.extend(ser.serialize(&crate::adapt::to_payload(m), false, false).map_err(|e| format!("serialize after the refusal: {:?}", e))?.bytes);
                    sent.push(m.clone());
                    scs.push(None);
                }
                let got = lib_decode_partitioned(&bytes, &[bytes.len()], &scs).map_err(|e| format!("serializer after a refused size: {}", e.0))?;
                if got != sent {
                    return Err("serializer after a refused size: round trip differs".to_string());
                }
            }
            // deserializer side
            if refused <= usize::MAX as u64 {
                let mut d = ChunkDeserializer::new();
                if let Some(b) = before {
                    d.set_max_chunk_size(b as usize).map_err(|e| format!("{:?}", e))?;
                }
                if d.set_max_chunk_size(refused as usize).is_ok() {
                    return Ok(());
                }
                let mut enc = crate::refs::chunk::Encoder::new();
                enc.chunk_size = size_in_force;
                let mut got = Vec::new();
                for m in msgs.iter() {
                    let bytes = enc.encode_simple(m, 4);
                    crate::adapt::lib_feed(&mut d, &bytes, &mut got, |_, _| {}).map_err(|e| format!("deserializer after a refused size: {}", e))?;
                }
                if got != msgs {
                    return Err("deserializer after a refused size: decoded messages differ".to_string());
                }
            }
            Ok(())
        });
        match r {
            Some(Ok(())) => out.count("codec_still_working_after_a_refused_value", 1),
            Some(Err(e)) => {
                out.violation("refused-value-leaves-codec-not-working", json!({"error": e, "case": what, "size_in_force_before": before.unwrap_or(128)}));
                return;
            }
            None => return,
        }
    }
}

fn codec_round_trip(size: u32, out: &mut Out, what: &Value) -> bool {
    // a C01-style round trip at this chunk size
    let cap = 70_000usize;
    let s = size as usize;
    let lens = [0usize, 1, s.saturating_sub(1).min(cap), s.min(cap), s.saturating_add(1).min(cap), s.saturating_mul(3).min(cap)];
    let r = lib_call(out, "codec round trip", || what.clone(), || {
        let mut ser = ChunkSerializer::new();
        // the announcement's own timestamp is an argument too (also past the extended-timestamp
        // threshold); every third value is reached from a tiny chunk size, so that the announcement
        // itself is cut into chunks
        let ts0 = [0u32, 0, 16_777_214, 16_777_215, 16_800_000, 0xFFFF_FFFF][(size % 6) as usize];
        let mut bytes = Vec::new();
        let mut sent = Vec::new();
        if size % 3 == 1 {
            let tiny = 1 + size % 3;
            bytes.extend(ser.set_max_chunk_size(tiny, RtmpTimestamp::new(0)).map_err(|e| format!("{:?}", e))?.bytes);
            sent.push(Msg { type_id: 1, msid: 0, ts: 0, data: tiny.to_be_bytes().to_vec() });
        }
        bytes.extend(ser.set_max_chunk_size(size, RtmpTimestamp::new(ts0)).map_err(|e| format!("{:?}", e))?.bytes);
        sent.push(Msg { type_id: 1, msid: 0, ts: ts0, data: size.to_be_bytes().to_vec() });
        for (i, l) in lens.iter().enumerate() {
            let m = Msg { type_id: 9, msid: 1, ts: 40 * i as u32, data: (0..*l).map(|x| (x * 31 + i) as u8).collect() };
            bytes.extend(ser.serialize(&crate::adapt::to_payload(&m), false, false).map_err(|e| format!("{:?}", e))?.bytes);
            sent.push(m);
        }
        let mut scs = vec![None; sent.len()];
        for (i, m) in sent.iter().enumerate() {
            if m.type_id == 1 {
                scs[i] = Some(size);
            }
        }
        let got = lib_decode_partitioned(&bytes, &[bytes.len()], &scs).map_err(|e| e.0)?;
        // the announcement may name an equivalent size (the receiver was told the decoded one)
        for (i, g) in got.iter().enumerate() {
            if i < sent.len() && sent[i].type_id == 1 && super::chunkgen::announced_size(g).is_some() {
                sent[i].data = g.data.clone();
            }
        }
        if got != sent {
            return Err("round trip differs".to_string());
        }
        Ok(())
    });
    match r {
        Some(Ok(())) => true,
        Some(Err(e)) => {
            out.violation("accepted-chunk-size-but-codec-does-not-work", json!({"error": e, "case": what}));
            false
        }
        None => false,
    }
}

fn run(case: &Case, rng: &mut Rng, out: &mut Out) {
    out.eval(1);
    let what = json!(format!("{:?}", case));
    let _cg = ClockGuard;
    match case {
        Case::SerType1(v) => {
            let r = lib_call(out, "ChunkSerializer::serialize(type-1 payload) and what follows", || what.clone(), || -> Result<(), String> {
                let mut ser = ChunkSerializer::new();
                let mut bytes = Vec::new();
                let mut sent = Vec::new();
                for (i, m) in [Msg { type_id: 1, msid: 0, ts: 0, data: v.to_be_bytes().to_vec() }, Msg { type_id: 9, msid: 1, ts: 40, data: (0..300u32).map(|x| x as u8).collect() }, Msg { type_id: 8, msid: 1, ts: 60, data: vec![1, 2, 3] }].into_iter().enumerate() {
                    bytes.extend(ser.serialize(&crate::adapt::to_payload(&m), false, i == 0).map_err(|e| format!("{:?}", e))?.bytes);
                    sent.push(m);
                }
                // the payload is a payload: the receiver is not told anything
                let got = lib_decode_partitioned(&bytes, &[bytes.len()], &vec![None; sent.len()]).map_err(|e| e.0)?;
                if got != sent {
                    return Err("round trip differs".to_string());
                }
                Ok(())
            });
            match r {
                Some(Ok(())) => out.count("in_range_value_honoured", 1),
                Some(Err(e)) => out.violation("accepted-chunk-size-but-codec-does-not-work", json!({"error": e, "case": what})),
                None => {}
            }
        }
        Case::PeerChunk(v, server, first) => {
            use crate::refs::chunk::{Encoder, Msg};
            use rml_rtmp::sessions::{ClientSession, ClientSessionResult, ServerSession, ServerSessionResult};
            let in_range = chunk_in_range(*v as u64);
            let r = lib_call(out, "session handle_input(SetChunkSize from the peer)", || what.clone(), || -> Result<(bool, usize), String> {
                let mut enc = Encoder::new();
                let ping = |n: u32| Msg { type_id: 4, msid: 0, ts: 0, data: vec![0, 6, (n >> 24) as u8, (n >> 16) as u8, (n >> 8) as u8, n as u8] };
                let mut call1 = Vec::new();
                if !*first {
                    call1.extend(enc.encode_simple(&ping(1), 2));
                }
                call1.extend(enc.encode_simple(&Msg { type_id: 1, msid: 0, ts: 0, data: v.to_be_bytes().to_vec() }, 2));
                // what follows is cut at the new size when it is one a sender could use
                if in_range {
                    enc.chunk_size = *v as usize;
                }
                let mut call2 = enc.encode_simple(&Msg { type_id: 22, msid: 0, ts: 0, data: (0..300u32).map(|i| i as u8).collect() }, 7);
                call2.extend(enc.encode_simple(&ping(2), 2));
                // a session answers a ping request with one packet: count them
                if *server {
                    let (mut s, _) = ServerSession::new(ServerSessionConfig::new()).map_err(|e| format!("{:?}", e))?;
                    let pongs = |rs: &Vec<ServerSessionResult>| rs.iter().filter(|r| matches!(r, ServerSessionResult::OutboundResponse(_))).count();
                    let r1 = s.handle_input(&call1);
                    match r1 {
                        Err(_) => Ok((false, 0)),
                        Ok(rs1) => {
                            let rs2 = s.handle_input(&call2).map_err(|e| format!("after an accepted chunk size: {:?}", e))?;
                            Ok((true, pongs(&rs1) + pongs(&rs2)))
                        }
                    }
                } else {
                    let (mut s, _) = ClientSession::new(ClientSessionConfig::new()).map_err(|e| format!("{:?}", e))?;
                    let pongs = |rs: &Vec<ClientSessionResult>| rs.iter().filter(|r| matches!(r, ClientSessionResult::OutboundResponse(_))).count();
                    let r1 = s.handle_input(&call1);
                    match r1 {
                        Err(_) => Ok((false, 0)),
                        Ok(rs1) => {
                            let rs2 = s.handle_input(&call2).map_err(|e| format!("after an accepted chunk size: {:?}", e))?;
                            Ok((true, pongs(&rs1) + pongs(&rs2)))
                        }
                    }
                }
            });
            match r {
                Some(Ok((accepted, pongs))) => {
                    let want_pongs = if *first { 1 } else { 2 };
                    match (in_range, accepted) {
                        (true, true) if pongs == want_pongs => out.count("in_range_value_honoured", 1),
                        (true, true) => out.violation("accepted-chunk-size-but-session-does-not-work", json!({"case": what, "ping_responses": pongs, "expected": want_pongs})),
                        (true, false) => out.violation("in-range-value-refused", what.clone()),
                        (false, false) => out.count("out_of_range_value_refused", 1),
                        (false, true) => out.violation("out-of-range-value-accepted", what.clone()),
                    }
                }
                Some(Err(e)) => out.violation("accepted-chunk-size-but-session-does-not-work", json!({"case": what, "error": e})),
                None => {}
            }
        }
        Case::SerSet(v) => {
            let r = lib_call(out, "ChunkSerializer::set_max_chunk_size", || what.clone(), || {
                let mut s = ChunkSerializer::new();
                s.set_max_chunk_size(*v, RtmpTimestamp::new(0)).is_ok()
            });
            if let Some(ok) = r {
                if chunk_in_range(*v as u64) {
                    if !ok {
                        out.violation("in-range-value-refused", what.clone());
                    } else if codec_round_trip(*v, out, &what) {
                        out.count("in_range_value_honoured", 1);
                    }
                } else if ok {
                    out.violation("out-of-range-value-accepted", what.clone());
                } else {
                    out.count("out_of_range_value_refused", 1);
                    refused_leaves_codec_working(*v as u64, out, &what);
                }
            }
        }
        Case::DeserSet(v) => {
            if *v > usize::MAX as u64 {
                return;
            }
            let r = lib_call(out, "ChunkDeserializer::set_max_chunk_size", || what.clone(), || {
                let mut d = ChunkDeserializer::new();
                d.set_max_chunk_size(*v as usize).is_ok()
            });
            if let Some(ok) = r {
                if chunk_in_range(*v) {
                    if !ok {
                        out.violation("in-range-value-refused", what.clone());
                    } else {
                        // follow-up: reference-encoded messages at that chunk size decode
                        let r = lib_call(out, "ChunkDeserializer follow-up", || what.clone(), || {
                            let mut enc = crate::refs::chunk::Encoder::new();
                            enc.chunk_size = *v as usize;
                            let cap = 70_000usize;
                            let s = *v as usize;
                            let mut sent = Vec::new();
                            let mut bytes = Vec::new();
                            for (i, l) in [0usize, 1, s.saturating_sub(1).min(cap), s.min(cap), s.saturating_add(1).min(cap)].iter().enumerate() {
                                let m = Msg { type_id: 8, msid: 1, ts: i as u32, data: (0..*l).map(|x| (x * 7 + i) as u8).collect() };
                                bytes.extend(enc.encode_simple(&m, 4));
                                sent.push(m);
                            }
                            if s > cap {
                                // and one message that really needs the large size
                                let l = s.min(16_777_215);
                                let m = Msg { type_id: 9, msid: 1, ts: 99, data: (0..l).map(|x| (x >> 5) as u8 ^ x as u8).collect() };
                                bytes.extend(enc.encode_simple(&m, 6));
                                sent.push(m);
                            }
                            let mut d = ChunkDeserializer::new();
                            d.set_max_chunk_size(*v as usize).map_err(|e| format!("{:?}", e))?;
                            let mut got = Vec::new();
                            // in pieces, each ending inside a chunk payload where there is one: what
                            // the deserializer sets aside for the rest of a chunk must be bounded by
                            // what is missing, not by the chunk size in force
                            let mark = crate::alloc::mark();
                            let cuts = [bytes.len() / 3, bytes.len() / 2 + 7, bytes.len() - 1.min(bytes.len())];
                            let mut pos = 0;
                            for c in cuts.iter().chain([bytes.len()].iter()) {
                                if *c > pos {
                                    crate::adapt::lib_feed(&mut d, &bytes[pos..*c], &mut got, |_, _| {})?;
                                    pos = *c;
                                }
                            }
                            let peak = crate::alloc::peak_since(mark);
                            if peak > 64 * bytes.len() + (64 << 20) {
                                return Err(format!("peak allocation {} bytes while decoding {} bytes at this chunk size", peak, bytes.len()));
                            }
                            if got != sent {
                                return Err("decoded messages differ".to_string());
                            }
                            Ok(())
                        });
                        match r {
                            Some(Ok(())) => out.count("in_range_value_honoured", 1),
                            Some(Err(e)) => out.violation("accepted-chunk-size-but-codec-does-not-work", json!({"error": e, "case": what})),
                            None => {}
                        }
                    }
                } else if ok {
                    out.violation("out-of-range-value-accepted", what.clone());
                } else {
                    out.count("out_of_range_value_refused", 1);
                    refused_leaves_codec_working(*v, out, &what);
                }
            }
        }
        Case::ServerChunk(v) | Case::ClientChunk(v) => {
            for mode in [Mode::PublishLive, Mode::Play] {
                let mut sc = small_scenario(rng, mode);
                if matches!(case, Case::ServerChunk(_)) {
                    sc.server_cfg.chunk_size = *v;
                } else {
                    sc.client_cfg.chunk_size = *v;
                }
                let r = scenario_outcome(&sc, rng, out, &what);
                judge(chunk_in_range(*v as u64), true, r, out, &what);
            }
        }
        Case::ServerWindow(v) | Case::ClientWindow(v) | Case::PeerBandwidth(v) | Case::BufferLength(v) => {
            for mode in [Mode::PublishRecord, Mode::Play] {
                let mut sc = small_scenario(rng, mode);
                match case {
                    Case::ServerWindow(_) => sc.server_cfg.window_ack_size = *v,
                    Case::ClientWindow(_) => sc.client_cfg.window_ack_size = *v,
                    Case::PeerBandwidth(_) => sc.server_cfg.peer_bandwidth = *v,
                    _ => sc.client_cfg.playback_buffer_length_ms = *v,
                }
                let r = scenario_outcome(&sc, rng, out, &what);
                judge(true, true, r, out, &what);
            }
        }
        Case::SerPayload(len) => {
            let data = vec![0x5Au8; *len];
            let m = Msg { type_id: 9, msid: 1, ts: 0, data };
            let p = crate::adapt::to_payload(&m);
            let mark = alloc::mark();
            // the chunk size in force must not matter for the length limit: small, default-ish,
            // 2^24 and the largest legal one (where even an over-long payload fits one chunk)
            let chunk = *rng.pick(&[65536u32, 128, 0xFF_FFFF, 0x100_0000, 0x7FFF_FFFF, 0x7FFF_FFFF]);
            let r = lib_call(out, "ChunkSerializer::serialize", || json!({"case": what.clone(), "chunk_size": chunk}), || {
                let mut s = ChunkSerializer::new();
                let _ = s.set_max_chunk_size(chunk, RtmpTimestamp::new(0));
                s.serialize(&p, false, false).map(|p| p.bytes).map_err(|e| format!("{:?}", e))
            });
            let peak = alloc::peak_since(mark);
            out.maxv("max_peak_alloc_serialize", peak as u64);
            if peak > 64 * *len + (64 << 20) {
                out.violation("memory-bound-exceeded", json!({"peak": peak, "case": what}));
                return;
            }
            match r {
                Some(Ok(bytes)) => {
                    if *len > 16_777_215 {
                        out.violation("out-of-range-value-accepted", what.clone());
                    } else {
                        let got = lib_decode_partitioned(&bytes, &[bytes.len()], &[]).map_err(|e| e.0);
                        let mut d = ChunkDeserializer::new();
                        let _ = d.set_max_chunk_size(chunk as usize);
                        let mut got2 = Vec::new();
                        let r2 = crate::adapt::lib_feed(&mut d, &bytes, &mut got2, |_, _| {});
                        let _ = got;
                        if r2.is_ok() && got2.len() == 1 && got2[0] == m {
                            out.count("in_range_value_honoured", 1);
                        } else {
                            out.violation("accepted-payload-length-but-codec-does-not-work", json!({"case": what, "error": format!("{:?}", r2), "messages": got2.len()}));
                        }
                    }
                }
                Some(Err(_)) => {
                    if *len > 16_777_215 {
                        out.count("out_of_range_value_refused", 1);
                    } else {
                        out.violation("in-range-value-refused", what.clone());
                    }
                }
                None => {}
            }
        }
        Case::ClientPayload(len) | Case::ServerPayload(len) => {
            let mode = if matches!(case, Case::ClientPayload(_)) { Mode::PublishLive } else { Mode::Play };
            let mut sc = small_scenario(rng, mode);
            sc.items.push(Item::Video { data: vec![0xA5u8; *len], ts: 99, drop: false });
            sc.items.push(Item::Audio { data: vec![1, 2, 3], ts: 100, drop: false });
            let chunk = *rng.pick(&[65536u32, 0x100_0000, 0x7FFF_FFFF]);
            sc.client_cfg.chunk_size = chunk;
            sc.server_cfg.chunk_size = chunk;
            sc.sched = 1;
            let r = scenario_outcome(&sc, rng, out, &what);
            judge(*len <= 16_777_215, true, r, out, &what);
        }
        Case::AmfString(len) | Case::AmfName(len) => {
            // `len` is a length in BYTES (what the AMF0 length field counts); half of the runs
            // build it from multi-byte characters, so byte count and character count differ
            let s = {
                let unit = *rng.pick(&["s", "é", "中", "😀"]);
                let mut s = unit.repeat(*len / unit.len());
                while s.len() < *len {
                    s.push('s');
                }
                s
            };
            assert_eq!(s.len(), *len);
            let v = if matches!(case, Case::AmfString(_)) {
                vec![crate::refs::amf::V::Str(s)]
            } else {
                vec![crate::refs::amf::V::Obj(vec![(s, crate::refs::amf::V::Null)])]
            };
            let expressible = v.iter().all(crate::refs::amf::expressible);
            let mark = alloc::mark();
            let r = lib_call(out, "rml_amf0::serialize", || what.clone(), || crate::refs::amf::lib_encode(&v));
            let peak = alloc::peak_since(mark);
            if peak > 64 * *len + (64 << 20) {
                out.violation("memory-bound-exceeded", json!({"peak": peak, "case": what}));
                return;
            }
            match r {
                Some(Ok(bytes)) => {
                    if !expressible {
                        out.violation("out-of-range-value-accepted", what.clone());
                    } else {
                        match crate::refs::amf::lib_decode(&bytes) {
                            Ok((got, n)) if got == crate::refs::amf::seq_canon(&v) && n == bytes.len() => out.count("in_range_value_honoured", 1),
                            other => out.violation("accepted-length-but-codec-does-not-work", json!({"case": what, "decode": format!("{:?}", other.map(|x| x.1))})),
                        }
                    }
                }
                Some(Err(_)) => {
                    if expressible {
                        out.violation("in-range-value-refused", what.clone());
                    } else {
                        out.count("out_of_range_value_refused", 1);
                    }
                }
                None => {}
            }
        }
        Case::StringCfg(field, len) => {
            for mode in [Mode::PublishLive, Mode::Play] {
                let mut sc = small_scenario(rng, mode);
                let s = {
                    let unit = *rng.pick(&["v", "é", "中"]);
                    let mut s = unit.repeat(*len / unit.len());
                    while s.len() < *len {
                        s.push('v');
                    }
                    s
                };
                match *field {
                    "fms_version" => sc.server_cfg.fms_version = s,
                    "flash_version" => sc.client_cfg.flash_version = s,
                    "tc_url" => sc.client_cfg.tc_url = Some(s),
                    "app" => sc.app = s,
                    _ => sc.key = s,
                }
                let r = scenario_outcome(&sc, rng, out, &what);
                // boundary-length strings that are expressible may still be refused downstream
                // (e.g. the server's status description = fixed text + name exceeds 65,535 bytes)
                judge(*len <= 65535, *len < 60000, r, out, &what);
            }
        }
    }
    out.count(&format!("class_{}", format!("{:?}", case).split('(').next().unwrap_or("?")), 1);
}

impl Check for C19 {
    fn id(&self) -> &'static str {
        "C19"
    }
    fn plan(&self, tier: Tier) -> Plan {
        let fixed = fixed_cases().len() as u64;
        let mut p = Plan::new(fixed + tier.pick(40_000, 2_000_000), tier.pick(35.0, 360.0));
        p.mandatory = fixed;
        p.cpu_budget_s = 30.0;
        p.mem_ceiling = 3 << 30;
        p
    }
    fn run_case(&self, _tier: Tier, k: u64, rng: &mut Rng, out: &mut Out) {
        let fixed = fixed_cases();
        if (k as usize) >= fixed.len() && rng.chance(1, 12) {
            // accepted chunk sizes taking effect while messages on other chunk streams are in
            // flight (the C16 history with in-band size changes): the codec must keep working
            out.count("class_DeserSetWhileMessagesInFlight", 1);
            out.shape(mix(0xC16, k % 64));
            super::c16::run_scs_history(rng, out);
            return;
        }
        let case = if (k as usize) < fixed.len() {
            fixed[k as usize].clone()
        } else {
            // uniform / near-boundary values
            let v = rng.u32_boundary();
            match rng.below(12) {
                0 => Case::SerSet(v),
                1 => Case::DeserSet(if rng.chance(1, 4) { rng.next() } else { v as u64 }),
                2 => Case::ServerChunk(v),
                3 => Case::ClientChunk(v),
                4 => Case::ServerWindow(v),
                5 => Case::ClientWindow(v),
                6 => Case::PeerBandwidth(v),
                7 => Case::BufferLength(v),
                8 => Case::SerPayload(*rng.pick(&[16_777_215usize, 16_777_216, 100, 70_000]) + if rng.coin() { 0 } else { rng.usize(0, 3) }),
                9 => Case::AmfString(65530 + rng.usize(0, 12)),
                10 if rng.coin() => Case::PeerChunk(v, rng.coin(), rng.coin()),
                10 => Case::AmfName(65530 + rng.usize(0, 12)),
                _ => Case::StringCfg(*rng.pick(&STR_FIELDS), *rng.pick(&[10usize, 300, 65000, 65535 - 40, 65535, 65536])),
            }
        };
        out.shape(mix(crate::rng::fnv(format!("{:?}", case).as_bytes()), 0));
        out.sample(|| json!({"case": format!("{:?}", case)}));
        run(&case, rng, out);
    }
    fn rule(&self) -> String {
        "one call class x value per case, each in a supervised worker (CPU-time watchdog 30 s per case, allocator ceiling): chunk size {0,1,2,3,127,128,129,65536,2^24-1,2^24,2^31-2,2^31-1,2^31,2^31+1,2^32-2,2^32-1, boundary-biased random} into ChunkSerializer::set_max_chunk_size, ChunkDeserializer::set_max_chunk_size (also usize values beyond u32), ServerSessionConfig.chunk_size, ClientSessionConfig.chunk_size, and announced by the peer to a server and a client session (as the first message completed in an input call, or after another one); window/bandwidth/buffer length {0,1,2,100,2^31-1,2^31,2^32-2,2^32-1, random}; payload lengths {0,16777214,16777215,16777216,16777217,20M,32M} into serialize and through both sessions; AMF0 string and property-name lengths {0,1,65534..65537,70000}; fms_version/flash_version/tc_url/app/stream-key strings of those lengths. One case in twelve applies accepted chunk sizes through in-band SetChunkSize messages placed between the chunks of messages in flight on other chunk streams (the C16 history). Out-of-range must give Err (at the call or at first use), and after a refused set_max_chunk_size the same serializer and deserializer must go on working at the size in force before (default, 4096 or 5); every accepted value is followed by a codec round trip or a connect+publish|play scenario of 4-6 items that must complete exactly. distinct = distinct (call class, value).".to_string()
    }
    fn assumptions(&self) -> Vec<String> {
        vec![
            "bounded time = 30 CPU-seconds per case (normal cost < 0.5 s); bounded memory = peak <= 64 x payload + 64 MiB and the worker allocation ceiling".to_string(),
            "in-range strings within ~5.5 KB of 65,535 bytes may be refused downstream with an error (status descriptions = fixed text + name) - counted, not flagged".to_string(),
        ]
    }
    fn required_counters(&self, _tier: Tier) -> Vec<String> {
        let mut v = vec!["in_range_value_honoured".to_string(), "out_of_range_value_refused".into()];
        for c in ["SerSet", "DeserSet", "ServerChunk", "ClientChunk", "ServerWindow", "ClientWindow", "PeerBandwidth", "BufferLength", "SerPayload", "ClientPayload", "ServerPayload", "AmfString", "AmfName", "StringCfg", "DeserSetWhileMessagesInFlight", "PeerChunk", "SerType1"] {
            v.push(format!("class_{}", c));
        }
        v
    }
    fn death_signature(&self, how: &str) -> String {
        format!("call-does-not-return-in-bounded-time-or-memory:{}", how)
    }
    fn exhaustive_part(&self, _tier: Tier) -> Option<String> {
        Some("the listed boundary value sets for every call class".to_string())
    }
}
