//! C12 - AMF0 wire format conforms to the specification in both directions.
//! Four monitors: encoder vs reference, decoder on reference variant encodings, all 256 markers,
//! every truncation point.  DESIGN section 4, C12.

use crate::fw::{lib_call, Check, Out, Plan, Tier};
use crate::refs::amf::{self, EncPolicy, GenCfg, V};
use crate::rng::{hex_short, Rng};
use serde_json::json;

pub struct C12;

const BATCH: usize = 40;
const SUPPORTED: [u8; 8] = [0, 1, 2, 3, 5, 6, 8, 10];

fn encoder_monitor(vs: &[V], out: &mut Out) {
    out.eval(1);
    let expressible = vs.iter().all(amf::expressible);
    let enc = match lib_call(out, "rml_amf0::serialize", || amf::seq_json(vs), || amf::lib_encode(vs)) {
        Some(e) => e,
        None => return,
    };
    match (enc, expressible) {
        (Err(e), true) => out.violation(
            "encoder-refuses-expressible-value",
            json!({"values": amf::seq_json(vs), "error": e}),
        ),
        (Err(_), false) => out.count("encoder_refused_inexpressible", 1),
        (Ok(bytes), false) => out.violation(
            "encoder-accepts-value-amf0-cannot-express",
            json!({"values": amf::seq_json(vs), "bytes": hex_short(&bytes, 120)}),
        ),
        (Ok(bytes), true) => {
            let reference = amf::encode(vs);
            match amf::decode_strict(&bytes) {
                Err(e) => out.violation(
                    "encoder-output-rejected-by-strict-reference-decoder",
                    json!({"values": amf::seq_json(vs), "bytes": hex_short(&bytes, 160), "reference_error": e}),
                ),
                Ok(d) => {
                    let got = amf::seq_canon(&d);
                    let want = amf::seq_canon(vs);
                    if got != want {
                        out.violation(
                            &format!("encoder-output-denotes-different-value:{}", amf::seq_diff_class(&got, &want)),
                            json!({"values": amf::seq_json(vs), "bytes": hex_short(&bytes, 160), "reference_decoded": amf::seq_json(&got)}),
                        );
                        return;
                    }
                }
            }
            if bytes.len() != reference.len() {
                out.violation(
                    "encoder-output-length-differs-from-reference",
                    json!({"values": amf::seq_json(vs), "bytes": hex_short(&bytes, 160), "reference": hex_short(&reference, 160)}),
                );
                return;
            }
            let single_order = vs.iter().all(|v| v.max_props() <= 1);
            if single_order {
                out.count("encoder_byte_exact_comparisons", 1);
                if bytes != reference {
                    let at = bytes.iter().zip(reference.iter()).position(|(a, b)| a != b).unwrap_or(0);
                    out.violation(
                        "encoder-output-bytes-differ-from-reference",
                        json!({"values": amf::seq_json(vs), "first_difference_at": at, "bytes": hex_short(&bytes, 160), "reference": hex_short(&reference, 160)}),
                    );
                    return;
                }
            }
            out.count("encoder_conformant", 1);
        }
    }
}

fn decoder_monitor(vs: &[V], rng: &mut Rng, out: &mut Out) {
    if !vs.iter().all(amf::expressible) {
        return;
    }
    out.eval(1);
    let shuffled: Vec<V> = vs.iter().map(|v| amf::shuffle_props(v, rng)).collect();
    let pol = EncPolicy {
        ecma_per_256: *rng.pick(&[0u32, 64, 256]),
        any_true_byte: rng.coin(),
    };
    let (bytes, st) = amf::encode_variant(&shuffled, &pol, rng);
    out.count("decoder_ecma_arrays_fed", st.ecma_arrays as u64);
    out.count("decoder_odd_true_bytes_fed", st.odd_true_bytes as u64);
    for c in st.ecma_counts.iter() {
        match *c {
            0 => out.count("ecma_count_zero", 1),
            0xFFFF_FFFF => out.count("ecma_count_max", 1),
            _ => out.count("ecma_count_other", 1),
        }
    }
    let dec = match lib_call(
        out,
        "rml_amf0::deserialize",
        || json!({"bytes": hex_short(&bytes, 160)}),
        || amf::lib_decode(&bytes),
    ) {
        Some(d) => d,
        None => return,
    };
    let want = amf::seq_canon(vs);
    match dec {
        Err(e) => out.violation(
            "decoder-rejects-conformant-encoding",
            json!({"values": amf::seq_json(vs), "bytes": hex_short(&bytes, 200), "error": e}),
        ),
        Ok((got, pos)) => {
            if got != want {
                out.violation(
                    &format!("decoder-maps-conformant-encoding-to-other-value:{}", amf::seq_diff_class(&got, &want)),
                    json!({"values": amf::seq_json(vs), "bytes": hex_short(&bytes, 200), "decoded": amf::seq_json(&got)}),
                );
            } else if pos != bytes.len() {
                out.violation(
                    "decoder-leaves-conformant-bytes-unread",
                    json!({"bytes": hex_short(&bytes, 200), "consumed": pos}),
                );
            } else {
                out.count("decoder_conformant", 1);
            }
        }
    }
}

fn truncation_monitor(vs: &[V], rng: &mut Rng, out: &mut Out) {
    if !vs.iter().all(amf::expressible) {
        return;
    }
    let bytes = amf::encode(vs);
    let want = amf::seq_canon(vs);
    let cuts: Vec<usize> = if bytes.len() <= 512 {
        (0..bytes.len()).collect()
    } else {
        let mut c: Vec<usize> = (0..200).map(|_| rng.usize(0, bytes.len() - 1)).collect();
        c.extend(0..32.min(bytes.len()));
        c.extend(bytes.len().saturating_sub(32)..bytes.len());
        c
    };
    for cut in cuts {
        out.eval(1);
        let t = &bytes[..cut];
        let dec = match lib_call(out, "rml_amf0::deserialize", || json!({"truncated": hex_short(t, 160)}), || amf::lib_decode(t)) {
            Some(d) => d,
            None => return,
        };
        match dec {
            Err(_) => out.count("truncation_rejected", 1),
            Ok((got, _)) => {
                if amf::seq_prefix(&got, &want) {
                    out.count("truncation_decoded_to_prefix", 1);
                    if got.last().map(|g| matches!(g, V::Arr(_))).unwrap_or(false) && got.len() <= want.len() && got.last() != want.get(got.len() - 1) {
                        out.count("truncation_shortened_array", 1);
                    }
                } else {
                    out.violation(
                        "truncated-encoding-decodes-to-data-that-was-not-there",
                        json!({"values": amf::seq_json(vs), "encoding": hex_short(&bytes, 200), "cut_at": cut, "decoded": amf::seq_json(&got)}),
                    );
                }
            }
        }
    }
}

fn marker_monitor(rng: &mut Rng, out: &mut Out) {
    for m in 0u16..=255 {
        let m = m as u8;
        for position in 0..3 {
            for tail_kind in 0..13 {
                let tail_len = match tail_kind {
                    0 => 0,
                    1 => 1,
                    2 => 8,
                    3 => 16,
                    _ => rng.usize(0, 16),
                };
                // kinds 6-12: the bodies the AMF0 specification gives the types this library does
                // not support, complete and well formed (a decoder that "also accepts" one of them
                // no longer reports the marker as an error): u16 reference, date (double + time
                // zone), long string / XML document (u32 length + UTF-8), typed object (class name +
                // object body), u16-length string, nothing at all, four zero bytes
                let tail: Vec<u8> = match tail_kind {
                    5 => vec![0u8; tail_len],
                    6 => vec![0, 0],
                    7 => vec![0x42, 0x76, 0x3C, 0x8F, 0x10, 0, 0, 0, 0, 0],
                    8 => vec![0, 0, 0, 3, b'a', b'b', b'c'],
                    9 => vec![0, 1, b'C', 0, 1, b'p', 0x05, 0, 0, 9],
                    10 => vec![0, 3, b'a', b'b', b'c'],
                    11 => vec![0, 0, 0, 0],
                    12 => vec![0, 0, 0, 6, 0xE4, 0xB8, 0xAD, 0xE6, 0x96, 0x87],
                    _ => rng.bytes(tail_len),
                };
                let mut bytes = match position {
                    0 => vec![],
                    1 => vec![0x0A, 0, 0, 0, 1],
                    _ => vec![0x03, 0, 1, b'a'],
                };
                bytes.push(m);
                bytes.extend_from_slice(&tail);
                out.eval(1);
                let dec = match lib_call(out, "rml_amf0::deserialize", || json!({"bytes": crate::rng::hex(&bytes)}), || amf::lib_decode(&bytes)) {
                    Some(d) => d,
                    None => continue,
                };
                if SUPPORTED.contains(&m) {
                    out.count("markers_supported_executed", 1);
                } else if m == 9 {
                    out.count(if dec.is_ok() { "marker9_at_value_position_ok" } else { "marker9_at_value_position_err" }, 1);
                } else {
                    out.count("markers_unsupported_executed", 1);
                    if let Ok((got, _)) = dec {
                        out.violation(
                            "unsupported-marker-accepted",
                            json!({"marker": m, "position": (["top-level", "array element", "property value"][position]), "bytes": crate::rng::hex(&bytes), "decoded": amf::seq_json(&got)}),
                        );
                    }
                }
            }
        }
    }
}

impl Check for C12 {
    fn id(&self) -> &'static str {
        "C12"
    }
    fn plan(&self, tier: Tier) -> Plan {
        let mut p = Plan::new(tier.pick(6_000, 600_000), tier.pick(30.0, 420.0));
        p.mandatory = 2;
        p
    }
    fn selftest(&self) -> Result<(), String> {
        amf::selftest()
    }
    fn run_case(&self, _tier: Tier, k: u64, rng: &mut Rng, out: &mut Out) {
        if k == 0 {
            marker_monitor(rng, out);
            out.sample(|| json!({"kind": "marker enumeration", "markers": 256, "positions": ["top-level", "array element", "property value"], "tails_per_marker_position": 13}));
            return;
        }
        if k == 1 {
            // fixed spec-conformant encodings the decoder must map to the denoted value
            let fixed: Vec<(&str, Vec<V>)> = vec![
                ("0102", vec![V::Bool(true)]),
                ("01ff", vec![V::Bool(true)]),
                ("0180", vec![V::Bool(true)]),
                ("0100", vec![V::Bool(false)]),
                ("0101", vec![V::Bool(true)]),
                ("08000000000001610101000009", vec![amf::obj(vec![("a", V::Bool(true))])]),
                ("08ffffffff000009", vec![V::Obj(vec![])]),
                ("0a00000000", vec![V::Arr(vec![])]),
                ("0a000000020a000000010506", vec![V::Arr(vec![V::Arr(vec![V::Null]), V::Undef])]),
                ("030001610300016205000009000009", vec![amf::obj(vec![("a", amf::obj(vec![("b", V::Null)]))])]),
                ("020000", vec![V::Str(String::new())]),
                ("007ff8000000000001", vec![V::Num(0x7ff8000000000001)]),
            ];
            for (hx, want) in fixed.iter() {
                let bytes = crate::rng::unhex(hx).unwrap();
                out.eval(1);
                if amf::decode_strict(&bytes).map(|d| amf::seq_canon(&d)) != Ok(amf::seq_canon(want)) {
                    panic!("harness: fixed vector {} disagrees with the reference decoder", hx);
                }
                match lib_call(out, "rml_amf0::deserialize", || json!({"bytes": hx}), || amf::lib_decode(&bytes)) {
                    Some(Ok((got, pos))) => {
                        let w = amf::seq_canon(want);
                        if got != w {
                            out.violation(
                                &format!("decoder-maps-conformant-encoding-to-other-value:{}", amf::seq_diff_class(&got, &w)),
                                json!({"bytes": hx, "decoded": amf::seq_json(&got), "denotes": amf::seq_json(want)}),
                            );
                        } else if pos != bytes.len() {
                            out.violation("decoder-leaves-conformant-bytes-unread", json!({"bytes": hx, "consumed": pos}));
                        }
                    }
                    Some(Err(e)) => out.violation("decoder-rejects-conformant-encoding", json!({"bytes": hx, "error": e})),
                    None => {}
                }
            }
            out.count("fixed_decoder_vectors", fixed.len() as u64);
            // ECMA arrays are decoded as objects: a nest written with ECMA-array markers denotes the
            // same value as the same nest written with object markers, at every depth - whatever
            // nesting limit the decoder has must not depend on which of the two markers was used
            for depth in (1usize..=140).chain([200, 255, 256, 257, 300].into_iter()) {
                let build = |pick: &dyn Fn(usize) -> bool| -> Vec<u8> {
                    let mut b = Vec::new();
                    for i in 0..depth {
                        if pick(i) {
                            b.extend_from_slice(&[0x08, 0, 0, 0, 1, 0, 1, b'a']);
                        } else {
                            b.extend_from_slice(&[0x03, 0, 1, b'a']);
                        }
                    }
                    b.push(0x05);
                    for _ in 0..depth {
                        b.extend_from_slice(&[0, 0, 9]);
                    }
                    b
                };
                let as_objects = build(&|_| false);
                let variants: [(&str, Vec<u8>); 3] = [("all-ecma", build(&|_| true)), ("alternating", build(&|i| i % 2 == 0)), ("ecma-innermost-half", build(&|i| i >= depth / 2))];
                out.eval(1);
                let base = match lib_call(out, "rml_amf0::deserialize", || json!({"object_nest_depth": depth}), || amf::lib_decode(&as_objects)) {
                    Some(r) => r.map(|x| x.0),
                    None => continue,
                };
                for (name, bytes) in variants.iter() {
                    let r = match lib_call(out, "rml_amf0::deserialize", || json!({"ecma_nest_depth": depth, "variant": name}), || amf::lib_decode(bytes)) {
                        Some(r) => r.map(|x| x.0),
                        None => continue,
                    };
                    let same = match (&base, &r) {
                        (Ok(a), Ok(b)) => a == b,
                        (Err(_), Err(_)) => true,
                        _ => false,
                    };
                    if !same {
                        out.violation(
                            "ecma-array-nest-decodes-differently-from-the-same-object-nest",
                            json!({"depth": depth, "variant": name, "object_nest": match &base { Ok(_) => "decodes".to_string(), Err(e) => e.clone() }, "ecma_nest": match &r { Ok(_) => "decodes".to_string(), Err(e) => e.clone() }}),
                        );
                        break;
                    }
                    out.count(if base.is_ok() { "ecma_nest_agrees_with_object_nest_decoded" } else { "ecma_nest_agrees_with_object_nest_refused" }, 1);
                }
            }
            return;
        }
        for i in 0..BATCH {
            let cfg = GenCfg {
                max_depth: rng.usize(1, 5),
                max_children: rng.usize(2, 6),
                inexpressible: i % 8 == 0,
                long_strings: i % 10 == 0,
            };
            let vs = amf::gen_seq(rng, &cfg);
            encoder_monitor(&vs, out);
            decoder_monitor(&vs, rng, out);
            if amf::approx_size(&V::Arr(vs.clone())) < 4000 || i % 10 == 0 {
                truncation_monitor(&vs, rng, out);
            }
            if vs.iter().any(|v| v.depth() >= 1) {
                out.shape(amf::shape_hash(&vs));
            }
            if i == 1 {
                out.sample(|| json!({"values": amf::seq_json(&vs), "reference_encoding": if vs.iter().all(amf::expressible) { hex_short(&amf::encode(&vs), 96) } else { "<inexpressible>".to_string() }}));
            }
        }
    }
    fn rule(&self) -> String {
        "value sequences as in C04; each runs the encoder monitor (library bytes strictly decoded by the reference, length and - for objects with <= 1 property - bytes equal to the reference encoding), the decoder monitor (reference encodings with shuffled property order, objects as ECMA arrays with count in {0, exact, exact+1, 2^32-1, random}, true as any non-zero byte) and the truncation monitor (every cut point for encodings <= 512 bytes, 264 otherwise). Case 0 enumerates all 256 marker bytes x 3 positions x 6 tails; case 1 runs 12 fixed spec vectors. Non-trivial = contains an object or array; distinct by structural hash.".to_string()
    }
    fn assumptions(&self) -> Vec<String> {
        vec![
            "empty property names are treated as not expressible: the specification reserves UTF-8-empty for the object end (DESIGN section 5)".to_string(),
            "marker 9 (object end) at value position is recorded, not judged".to_string(),
            "generated objects have unique property names".to_string(),
        ]
    }
    fn required_counters(&self, _tier: Tier) -> Vec<String> {
        vec![
            "encoder_conformant".into(),
            "encoder_byte_exact_comparisons".into(),
            "decoder_conformant".into(),
            "decoder_ecma_arrays_fed".into(),
            "decoder_odd_true_bytes_fed".into(),
            "ecma_count_zero".into(),
            "ecma_count_max".into(),
            "truncation_rejected".into(),
            "markers_unsupported_executed".into(),
            "markers_supported_executed".into(),
            "fixed_decoder_vectors".into(),
        ]
    }
    fn soft_counters(&self, _tier: Tier) -> Vec<String> {
        // whether a truncated array is decoded to a prefix or rejected is the decoder's policy
        vec!["truncation_decoded_to_prefix".into()]
    }
    fn exhaustive_part(&self, _tier: Tier) -> Option<String> {
        Some("all 256 marker bytes at three value positions; every truncation point of each generated encoding of <= 512 bytes".to_string())
    }
}
