//! C20 - RTMP timestamps form a wrap-around clock.  Oracle: modular arithmetic and order laws
//! computed in u64, against the real `RtmpTimestamp` operators.  DESIGN section 4, C20.

use crate::fw::{Check, Out, Plan, Tier};
use crate::rng::{mix, Rng};
use rml_rtmp::time::RtmpTimestamp;
use serde_json::json;
use std::cmp::Ordering;

pub struct C20;

const DS: [u32; 6] = [0, 1, 0x7FFF_FFFF, 0x8000_0000, 0x8000_0001, 0xFFFF_FFFF];
const BLOCK_BITS: u32 = 22;
const BLOCKS_PER_D: u64 = 1 << (32 - BLOCK_BITS);
const STRIDE: u64 = 17;
const QUICK_SEGS: u64 = 16;

const CLAUSES: [&str; 12] = [
    "add-not-exact-mod-2^32",
    "add-then-sub-not-identity",
    "sub-not-exact-mod-2^32",
    "sub-then-add-not-identity",
    "timestamp-operand-disagrees-with-u32-operand",
    "eq-disagrees-with-cmp-equal",
    "order-not-antisymmetric",
    "partial-cmp-disagrees-with-cmp",
    "ahead-by-1..2^31-1-not-later",
    "ahead-by-more-than-2^31-not-earlier",
    "u32-comparison-disagrees-with-timestamp-comparison",
    "antipode-compares-equal",
];

#[inline]
fn check_pair(a: u32, d: u32) -> u32 {
    let mut bad = 0u32;
    let ta = RtmpTimestamp::new(a);
    let td = RtmpTimestamp::new(d);
    let want_sum = ((a as u64 + d as u64) & 0xFFFF_FFFF) as u32;
    let want_diff = ((a as u64 + (1u64 << 32) - d as u64) & 0xFFFF_FFFF) as u32;
    let sum = ta + d;
    let diff = ta - d;
    if sum.value != want_sum {
        bad |= 1 << 0;
    }
    if (sum - d).value != a {
        bad |= 1 << 1;
    }
    if diff.value != want_diff {
        bad |= 1 << 2;
    }
    if (diff + d).value != a {
        bad |= 1 << 3;
    }
    if (ta + td).value != sum.value || (ta - td).value != diff.value {
        bad |= 1 << 4;
    }
    let b = RtmpTimestamp::new(want_sum);
    let ab = ta.cmp(&b);
    let ba = b.cmp(&ta);
    if (ta == b) != (ab == Ordering::Equal) || (a == want_sum) != (ta == b) {
        bad |= 1 << 5;
    }
    // a timestamp that came out of arithmetic is the same timestamp as one constructed from the
    // number: equal under ==, in both operand orders, and Equal under cmp
    let bd = RtmpTimestamp::new(want_diff);
    if !(sum == b && b == sum && diff == bd && bd == diff && (sum - d) == ta && (diff + d) == ta) || sum.cmp(&b) != Ordering::Equal || diff.cmp(&bd) != Ordering::Equal || sum != want_sum || diff != want_diff {
        bad |= 1 << 5;
    }
    if ab != ba.reverse() {
        bad |= 1 << 6;
    }
    if ta.partial_cmp(&b) != Some(ab) || b.partial_cmp(&ta) != Some(ba) {
        bad |= 1 << 7;
    }
    if d >= 1 && d <= 0x7FFF_FFFF {
        if !(b > ta && ta < b && ba == Ordering::Greater && ab == Ordering::Less) {
            bad |= 1 << 8;
        }
    } else if d >= 0x8000_0001 {
        if !(b < ta && ta > b && ba == Ordering::Less && ab == Ordering::Greater) {
            bad |= 1 << 9;
        }
    } else if d == 0x8000_0000 {
        if ab == Ordering::Equal || ba == Ordering::Equal {
            bad |= 1 << 11;
        }
    } else if ab != Ordering::Equal {
        bad |= 1 << 5;
    }
    // comparisons against plain integers, both operand orders, all operators
    let bv = want_sum;
    let c1 = ta.partial_cmp(&bv) != Some(ab);
    let c2 = bv.partial_cmp(&ta) != Some(ba);
    let c3 = (ta == bv) != (ta == b) || (bv == ta) != (b == ta);
    let c4 = (ta < bv) != (ta < b) || (ta > bv) != (ta > b) || (bv < ta) != (b < ta) || (bv > ta) != (b > ta);
    let c5 = (ta <= bv) != (ta <= b) || (ta >= bv) != (ta >= b);
    if c1 || c2 || c3 || c4 || c5 {
        bad |= 1 << 10;
    }
    bad
}

fn class(x: u32) -> u64 {
    match x {
        0 => 0,
        1 => 1,
        2..=0xFFFF => 2,
        0x10000..=0x7FFF_FFFD => 3,
        0x7FFF_FFFE => 4,
        0x7FFF_FFFF => 5,
        0x8000_0000 => 6,
        0x8000_0001 => 7,
        0x8000_0002..=0xFFFF_FFFC => 8,
        0xFFFF_FFFD => 9,
        0xFFFF_FFFE => 10,
        0xFFFF_FFFF => 11,
    }
}

fn cell(a: u32, d: u32) -> u64 {
    let wraps = (a as u64 + d as u64) >> 32;
    mix(class(a) * 16 + class(d), wraps)
}

fn report(out: &mut Out, a: u32, d: u32, bad: u32) {
    for (i, name) in CLAUSES.iter().enumerate() {
        if bad & (1 << i) != 0 {
            let ta = RtmpTimestamp::new(a);
            out.violation(
                name,
                json!({"a": a, "d": d, "a_plus_d_lib": (ta + d).value, "a_minus_d_lib": (ta - d).value,
                       "cmp(a,a+d)": format!("{:?}", ta.cmp(&RtmpTimestamp::new(a.wrapping_add(d))))}),
            );
        }
    }
}

fn grid_values(rng: &mut Rng) -> Vec<u32> {
    let mut v: Vec<u32> = vec![0, 1, 2];
    for x in 0x7FFF_FFFEu32..=0x8000_0002 {
        v.push(x);
    }
    for x in 0xFFFF_FFFDu32..=0xFFFF_FFFF {
        v.push(x);
    }
    v.push(0xFFFF);
    v.push(0x10000);
    v.push(0xFFFFFF);
    v.push(0x1000000);
    for _ in 0..64 {
        v.push(rng.u32());
    }
    v
}

impl C20 {
    fn random_cases(tier: Tier) -> u64 {
        tier.pick(1600, 16_000)
    }
    fn exhaustive_cases(tier: Tier) -> u64 {
        tier.pick(6 * QUICK_SEGS, 6 * BLOCKS_PER_D)
    }
}

impl Check for C20 {
    fn id(&self) -> &'static str {
        "C20"
    }
    fn plan(&self, tier: Tier) -> Plan {
        let mut p = Plan::new(1 + Self::exhaustive_cases(tier) + Self::random_cases(tier), tier.pick(40.0, 600.0));
        p.mandatory = 1 + Self::exhaustive_cases(tier);
        p.cpu_budget_s = 60.0;
        p
    }
    fn run_case(&self, tier: Tier, k: u64, rng: &mut Rng, out: &mut Out) {
        if k == 0 {
            // boundary grid (same grid every run, plus 64 seeded values)
            let g = grid_values(rng);
            for &a in g.iter() {
                for &d in g.iter() {
                    let bad = check_pair(a, d);
                    out.eval(1);
                    out.shape(cell(a, d));
                    if bad != 0 {
                        report(out, a, d, bad);
                    }
                }
            }
            out.count("grid_pairs", (g.len() * g.len()) as u64);
            out.sample(|| json!({"kind": "grid", "a": g[5], "d": g[7], "a+d": g[5].wrapping_add(g[7])}));
            return;
        }
        let k = k - 1;
        if k < Self::exhaustive_cases(tier) {
            let (di, lo, hi, step) = match tier {
                Tier::Quick => {
                    let seg = k % QUICK_SEGS;
                    ((k / QUICK_SEGS) as usize, seg << 28, (seg + 1) << 28, STRIDE)
                }
                Tier::Thorough => {
                    let di = (k / BLOCKS_PER_D) as usize;
                    let blk = k % BLOCKS_PER_D;
                    (di, blk << BLOCK_BITS, (blk + 1) << BLOCK_BITS, 1)
                }
            };
            let d = DS[di];
            let mut a = lo + if step > 1 { (rng.below(step)) } else { 0 };
            let mut n = 0u64;
            let mut first_bad: Option<(u32, u32)> = None;
            let mut bad_total = 0u64;
            while a < hi {
                let bad = check_pair(a as u32, d);
                if bad != 0 {
                    bad_total += 1;
                    if first_bad.is_none() {
                        first_bad = Some((a as u32, bad));
                    }
                }
                n += 1;
                a += step;
            }
            // boundary values of `a` inside the block are always included
            for &b in [0u32, 1, 0x7FFF_FFFF, 0x8000_0000, 0x8000_0001, 0xFFFF_FFFE, 0xFFFF_FFFF].iter() {
                if (b as u64) >= lo && (b as u64) < hi {
                    let bad = check_pair(b, d);
                    n += 1;
                    out.shape(cell(b, d));
                    if bad != 0 && first_bad.is_none() {
                        first_bad = Some((b, bad));
                    }
                }
            }
            out.shape(cell(lo as u32, d));
            out.shape(cell((hi - 1) as u32, d));
            out.eval(n);
            out.count(&format!("exhaustive_a_values_d={:#x}", d), n);
            if let Some((a, bad)) = first_bad {
                out.count("pairs_failing", bad_total);
                report(out, a, d, bad);
            }
            out.sample(|| json!({"kind": if step == 1 {"exhaustive-block"} else {"strided"}, "d": d, "a_from": lo, "a_to": hi - 1, "stride": step, "evaluated": n}));
            return;
        }
        // uniform random pairs (with boundary bias on half of them)
        let n = 1u64 << 18;
        for i in 0..n {
            let (a, d) = if i & 1 == 0 {
                (rng.u32(), rng.u32())
            } else {
                (rng.u32_boundary(), rng.u32_boundary())
            };
            let bad = check_pair(a, d);
            if i & 63 == 1 {
                out.shape(cell(a, d));
            }
            if bad != 0 {
                report(out, a, d, bad);
            }
        }
        out.eval(n);
        out.count("random_pairs", n);
    }
    fn rule(&self) -> String {
        "pairs (a, d) of u32: a boundary grid (0,1,2, 2^31-2..2^31+2, 2^32-3..2^32-1, 2^16, 2^24 neighbours, 64 seeded values) squared; every a in 0..2^32 (thorough) or every 17th a from a seeded start (quick) for each d in {0,1,2^31-1,2^31,2^31+1,2^32-1}; uniform and boundary-biased random pairs. Each pair evaluates all 12 clauses (add/sub exact and inverse, Timestamp vs u32 operand, eq vs cmp, antisymmetry, partial_cmp, ahead/behind order, every u32 comparison operator in both operand orders). distinct_nontrivial counts distinct (class of a, class of d, wraps?) cells observed, classes being the 12 boundary intervals of u32.".to_string()
    }
    fn assumptions(&self) -> Vec<String> {
        vec![
            "at the antipode d = 2^31 only antisymmetry and 'not Equal' are required (DESIGN section 5)".to_string(),
            "u64 arithmetic of the host is the reference".to_string(),
        ]
    }
    fn required_counters(&self, _tier: Tier) -> Vec<String> {
        let mut v = vec!["grid_pairs".to_string(), "random_pairs".to_string()];
        for d in DS.iter() {
            v.push(format!("exhaustive_a_values_d={:#x}", d));
        }
        v
    }
    fn exhaustive_part(&self, tier: Tier) -> Option<String> {
        match tier {
            Tier::Thorough => Some("all 2^32 values of a for each d in {0, 1, 2^31-1, 2^31, 2^31+1, 2^32-1}".to_string()),
            Tier::Quick => None,
        }
    }
}
