//! C09 - the server session follows the request/stream state machine in every history.
//! The real ServerSession runs in lock-step with `model::server`; random walks biased to rare
//! orders plus bounded exhaustive enumeration of short sequences.

use super::c02::ClockGuard;
use super::sessprep::{self, command, ServerRig};
use crate::fw::{guarded, panic_signature, Check, Out, Plan, Tier};
use crate::model::server::{tags_of, Ev, Model, Obs, Op, Stream, Verdict};
use crate::refs::amf::{self, V};
use crate::refs::msg::RMsg;
use crate::rng::{mix, Rng};
use bytes::Bytes;
use rml_rtmp::sessions::{ServerSessionConfig, ServerSessionEvent, StreamMetadata};
use rml_rtmp::time::RtmpTimestamp;
use serde_json::{json, Value};

pub struct C09;

pub fn ev_of(e: &ServerSessionEvent) -> Option<Ev> {
    Some(match e {
        ServerSessionEvent::ConnectionRequested { request_id, app_name } => Ev::ConnectionRequested { id: *request_id, app: app_name.clone() },
        ServerSessionEvent::PublishStreamRequested { request_id, app_name, stream_key, mode } => Ev::PublishRequested { id: *request_id, app: app_name.clone(), key: stream_key.clone(), mode: format!("{:?}", mode) },
        ServerSessionEvent::PlayStreamRequested { request_id, app_name, stream_key, stream_id, .. } => Ev::PlayRequested { id: *request_id, app: app_name.clone(), key: stream_key.clone(), stream: *stream_id },
        ServerSessionEvent::PublishStreamFinished { app_name, stream_key } => Ev::PublishFinished { app: app_name.clone(), key: stream_key.clone() },
        ServerSessionEvent::PlayStreamFinished { app_name, stream_key } => Ev::PlayFinished { app: app_name.clone(), key: stream_key.clone() },
        ServerSessionEvent::StreamMetadataChanged { app_name, stream_key, .. } => Ev::Metadata { app: app_name.clone(), key: stream_key.clone() },
        ServerSessionEvent::AudioDataReceived { app_name, stream_key, data, timestamp } => Ev::Audio { app: app_name.clone(), key: stream_key.clone(), ts: timestamp.value, data: data.to_vec() },
        ServerSessionEvent::VideoDataReceived { app_name, stream_key, data, timestamp } => Ev::Video { app: app_name.clone(), key: stream_key.clone(), ts: timestamp.value, data: data.to_vec() },
        _ => return None,
    })
}

/// the peer message for an operation (None for application calls)
pub fn peer_message(op: &Op) -> Option<(RMsg, u32, u32)> {
    Some(match op {
        Op::Connect { txid, app, object } => {
            let obj = if !*object {
                amf::s("not an object")
            } else {
                match app {
                    // every third connect omits objectEncoding, every fifth sends AMF3 (3.0)
                    Some(a) if (*txid as u64) % 3 == 0 => amf::obj(vec![("app", amf::s(a)), ("flashVer", amf::s("FMLE/3.0"))]),
                    Some(a) => amf::obj(vec![("app", amf::s(a)), ("flashVer", amf::s("FMLE/3.0")), ("objectEncoding", amf::num(if (*txid as u64) % 5 == 0 { 3.0 } else { 0.0 }))]),
                    None => amf::obj(vec![("flashVer", amf::s("FMLE/3.0"))]),
                }
            };
            (command("connect", *txid, obj, vec![]), 0, 0)
        }
        Op::CreateStream { txid } => (command("createStream", *txid, V::Null, vec![]), 0, 0),
        Op::Publish { msid, txid, key, mode, nargs } => {
            let mut args = vec![match key {
                Some(k) => amf::s(k),
                None => amf::num(7.0),
            }, match mode {
                Some(m) => amf::s(m),
                None => V::Bool(true),
            }];
            args.truncate(*nargs);
            while args.len() < *nargs {
                args.push(V::Null);
            }
            (command("publish", *txid, V::Null, args), *msid, 0)
        }
        Op::Play { msid, txid, key, nargs } => {
            let mut args = vec![
                match key {
                    Some(k) => amf::s(k),
                    None => V::Null,
                },
                amf::num(-2.0),
                amf::num(-1.0),
                V::Bool(true),
            ];
            args.truncate(*nargs);
            (command("play", *txid, V::Null, args), *msid, 0)
        }
        Op::CloseStream { id, raw, on } | Op::DeleteStream { id, raw, on } => {
            let name = if matches!(op, Op::CloseStream { .. }) { "closeStream" } else { "deleteStream" };
            let args = match (raw, id) {
                (Some(x), _) => vec![amf::num(*x)],
                (None, Some(i)) => vec![amf::num(*i as f64)],
                (None, None) => vec![],
            };
            (command(name, 0.0, V::Null, args), on.unwrap_or(id.unwrap_or(0)), 0)
        }
        Op::Audio { msid, ts, data } => (RMsg::Audio(data.clone()), *msid, *ts),
        Op::Video { msid, ts, data } => (RMsg::Video(data.clone()), *msid, *ts),
        Op::SetDataFrame { msid, well_formed } => (
            if *well_formed {
                RMsg::Data(vec![amf::s("@setDataFrame"), amf::s("onMetaData"), amf::obj(vec![("width", amf::num(1280.0)), ("encoder", amf::s("enc"))])])
            } else {
                RMsg::Data(vec![amf::s("@setDataFrame"), amf::s("somethingElse"), V::Null])
            },
            *msid,
            0,
        ),
        Op::OtherData { msid } => (RMsg::Data(vec![amf::s("onCuePoint"), amf::obj(vec![("a", V::Null)])]), *msid, 0),
        Op::Ping { ts, msid } => (RMsg::UserControl(6, vec![*ts]), *msid, 0),
        Op::Control { kind, n, msid } => (
            match kind {
                0 => RMsg::Abort(*n),
                1 => RMsg::Ack(*n),
                2 => RMsg::SetPeerBw(*n, (*n % 3) as u8),
                3 => RMsg::UserControl(0, vec![*n]),
                4 => RMsg::UserControl(1, vec![*n]),
                5 => RMsg::UserControl(2, vec![*n]),
                6 => RMsg::UserControl(3, vec![*n, 3000]),
                7 => RMsg::UserControl(4, vec![*n]),
                _ => RMsg::UserControl(7, vec![*n]),
            },
            *msid,
            0,
        ),
        Op::UnknownCommand => (command("FCPublish", 3.0, V::Null, vec![amf::s("key")]), 0, 0),
        _ => return None,
    })
}

pub fn op_json(op: &Op) -> Value {
    let s = format!("{:?}", op);
    json!(s.chars().take(160).collect::<String>())
}

/// Execute one operation on the rig; returns the observation (or a panic).
pub fn execute(rig: &mut ServerRig, op: &Op) -> Result<Obs, (String, String)> {
    let r = guarded(|| -> Result<sessprep::Step<ServerSessionEvent>, String> {
        if let Some((m, msid, ts)) = peer_message(op) {
            return rig.send(&m, msid, ts);
        }
        rig.tick();
        match op {
            Op::Accept { id } => rig.s.accept_request(*id).map(|rs| rig.absorb(rs)).map_err(|e| format!("{:?}", e)),
            Op::Reject { id } => rig.s.reject_request(*id, "NetConnection.Connect.Rejected", "no").map(|rs| rig.absorb(rs)).map_err(|e| format!("{:?}", e)),
            Op::SendAudio { stream, ts, data, drop } => rig
                .s
                .send_audio_data(*stream, Bytes::from(data.clone()), RtmpTimestamp::new(*ts), *drop)
                .map(|p| rig.absorb(vec![rml_rtmp::sessions::ServerSessionResult::OutboundResponse(p)]))
                .map_err(|e| format!("{:?}", e)),
            Op::SendVideo { stream, ts, data, drop } => rig
                .s
                .send_video_data(*stream, Bytes::from(data.clone()), RtmpTimestamp::new(*ts), *drop)
                .map(|p| rig.absorb(vec![rml_rtmp::sessions::ServerSessionResult::OutboundResponse(p)]))
                .map_err(|e| format!("{:?}", e)),
            Op::SendMetadata { stream } => {
                let mut m = StreamMetadata::new();
                m.video_width = Some(640);
                rig.s.send_metadata(*stream, &m).map(|p| rig.absorb(vec![rml_rtmp::sessions::ServerSessionResult::OutboundResponse(p)])).map_err(|e| format!("{:?}", e))
            }
            Op::FinishPlaying { stream } => rig.s.finish_playing(*stream).map(|p| rig.absorb(vec![rml_rtmp::sessions::ServerSessionResult::OutboundResponse(p)])).map_err(|e| format!("{:?}", e)),
            Op::PingRequest => rig.s.send_ping_request().map(|(p, _)| rig.absorb(vec![rml_rtmp::sessions::ServerSessionResult::OutboundResponse(p)])).map_err(|e| format!("{:?}", e)),
            _ => unreachable!(),
        }
    })?;
    Ok(match r {
        Err(e) => Obs { ok: false, error: e, events: vec![], tags: vec![] },
        Ok(st) => {
            let events: Vec<Ev> = st.events.iter().filter_map(ev_of).collect();
            match sessprep::decode_packets(&mut rig.dec, &st.packets) {
                Ok(ms) => Obs { ok: true, error: String::new(), events, tags: tags_of(&ms) },
                Err(e) => Obs { ok: true, error: format!("UNDECODABLE: {}", e), events, tags: vec![] },
            }
        }
    })
}

// ---------------------------------------------------------------------------------------------
// abstract symbols resolved against the model state

#[derive(Clone, Copy, Debug, PartialEq)]
pub enum Sym {
    ConnectGood,
    ConnectNoApp,
    ConnectNonObject,
    CreateStream,
    Publish(StreamSel, ArgForm),
    Play(StreamSel, ArgForm),
    Close(StreamSel),
    Delete(StreamSel),
    Audio(StreamSel),
    Video(StreamSel),
    Meta(StreamSel, bool),
    OtherData(StreamSel),
    Ping,
    /// ping request whose chunk header names the message stream of a stream selection
    PingOn(StreamSel),
    /// another protocol-control / user-control message carrying the id of a stream selection
    /// (or a small number), on message stream 0 or on that stream
    Control(u8, StreamSel),
    Unknown,
    Accept(IdSel),
    Reject(IdSel),
    SendAudio(StreamSel),
    SendVideo(StreamSel),
    SendMeta(StreamSel),
    Finish(StreamSel),
    PingRequest,
}

#[derive(Clone, Copy, Debug, PartialEq)]
pub enum StreamSel {
    First,
    Last,
    Deleted,
    Never,
    Zero,
    NoArg,
    /// a number outside the u32 range that is congruent to the first stream's id modulo 2^32
    AliasAbove,
    AliasBelow,
    /// other numbers that name no stream: -1, 2^32, 1e300
    OutOfRange,
    /// any of the existing streams (the n-th by a draw made at selection time)
    Random(u8),
}

#[derive(Clone, Copy, Debug, PartialEq)]
pub enum ArgForm {
    Good,
    TooFew,
    IllTypedKey,
    BadMode,
    IllTypedMode,
    OtherKey,
}

#[derive(Clone, Copy, Debug, PartialEq)]
pub enum IdSel {
    Oldest,
    Newest,
    Stale,
    Never,
}

fn sel_stream(m: &Model, s: StreamSel) -> Option<u32> {
    match s {
        StreamSel::First => Some(m.streams.keys().next().cloned().unwrap_or(1)),
        StreamSel::Last => Some(m.streams.keys().last().cloned().unwrap_or(1)),
        StreamSel::Deleted => Some(m.deleted_streams.last().cloned().unwrap_or(2)),
        StreamSel::Never => Some(77),
        StreamSel::Zero => Some(0),
        StreamSel::Random(n) => {
            let k = m.streams.len();
            Some(if k == 0 { 1 } else { *m.streams.keys().nth((n as usize * 37) % k).unwrap() })
        }
        StreamSel::NoArg | StreamSel::AliasAbove | StreamSel::AliasBelow | StreamSel::OutOfRange => None,
    }
}

fn carrier(m: &Model, s: StreamSel, rng: &mut Rng) -> Option<u32> {
    if s == StreamSel::NoArg || m.streams.is_empty() || !rng.chance(1, 4) {
        return None;
    }
    m.streams.keys().nth(rng.usize(0, m.streams.len() - 1)).cloned()
}

/// the number sent for selections that do not name a stream by an exact u32
fn sel_raw(m: &Model, s: StreamSel, rng: &mut Rng) -> Option<f64> {
    let first = m.streams.keys().next().cloned().unwrap_or(1) as f64;
    match s {
        StreamSel::AliasAbove => Some(4294967296.0 + first),
        StreamSel::AliasBelow => Some(first - 4294967296.0),
        StreamSel::OutOfRange => Some(*rng.pick(&[-1.0, 4294967296.0, 1e300, -1e300, 8589934592.0])),
        _ => None,
    }
}

fn sel_id(m: &Model, s: IdSel) -> u32 {
    match s {
        IdSel::Oldest => m.outstanding.keys().next().cloned().unwrap_or(0),
        IdSel::Newest => m.outstanding.keys().last().cloned().unwrap_or(0),
        IdSel::Stale => m.consumed_request_ids.last().cloned().unwrap_or(1000),
        IdSel::Never => 4242,
    }
}

pub fn resolve(sym: Sym, m: &Model, rng: &mut Rng, step: usize) -> Op {
    let txid = (step + 2) as f64;
    let media = |rng: &mut Rng| -> (u32, Vec<u8>) {
        let mut d = rng.bytes_in(0, 40);
        let t = if rng.coin() { 8 } else { 9 };
        rng.flv_prefix(t, &mut d);
        (rng.u32_boundary(), d)
    };
    match sym {
        Sym::ConnectGood => Op::Connect { txid, app: Some(if rng.chance(1, 6) { "live/".to_string() } else { rng.spice(format!("app{}", step % 3)) }), object: true },
        Sym::ConnectNoApp => Op::Connect { txid, app: None, object: true },
        Sym::ConnectNonObject => Op::Connect { txid, app: None, object: false },
        Sym::CreateStream => Op::CreateStream { txid },
        Sym::Publish(s, a) => {
            let (key, mode, nargs) = match a {
                ArgForm::Good => (Some(rng.spice("key".to_string())), Some(rng.pick(&["live", "record", "append", "LIVE"]).to_string()), 2),
                ArgForm::OtherKey => (Some("other".to_string()), Some("live".to_string()), 2),
                ArgForm::TooFew => (Some("key".to_string()), None, rng.usize(0, 1)),
                ArgForm::IllTypedKey => (None, Some("live".to_string()), 2),
                ArgForm::BadMode => (Some("key".to_string()), Some("bogus".to_string()), 2),
                ArgForm::IllTypedMode => (Some("key".to_string()), None, 2),
            };
            Op::Publish { msid: sel_stream(m, s).unwrap_or(0), txid, key, mode, nargs }
        }
        Sym::Play(s, a) => {
            let (key, nargs) = match a {
                ArgForm::Good => (Some(rng.spice("key".to_string())), *rng.pick(&[1usize, 1, 2, 3, 4])),
                ArgForm::OtherKey => (Some("other".to_string()), 1),
                ArgForm::TooFew => (Some("key".to_string()), 0),
                _ => (None, 1),
            };
            Op::Play { msid: sel_stream(m, s).unwrap_or(0), txid, key, nargs }
        }
        // a command with a numeric argument names its stream by the argument, whatever message
        // stream carries it: one in four travels on another existing stream (without an argument
        // the carrying stream may be what is meant, so those stay on stream 0)
        Sym::Close(s) => Op::CloseStream { id: sel_stream(m, s), raw: sel_raw(m, s, rng), on: carrier(m, s, rng) },
        Sym::Delete(s) => Op::DeleteStream { id: sel_stream(m, s), raw: sel_raw(m, s, rng), on: carrier(m, s, rng) },
        Sym::Audio(s) => {
            let (ts, data) = media(rng);
            Op::Audio { msid: sel_stream(m, s).unwrap_or(0), ts, data }
        }
        Sym::Video(s) => {
            let (ts, data) = media(rng);
            Op::Video { msid: sel_stream(m, s).unwrap_or(0), ts, data }
        }
        Sym::Meta(s, wf) => Op::SetDataFrame { msid: sel_stream(m, s).unwrap_or(0), well_formed: wf },
        Sym::OtherData(s) => Op::OtherData { msid: sel_stream(m, s).unwrap_or(0) },
        Sym::Ping => Op::Ping { ts: rng.u32_boundary(), msid: 0 },
        Sym::PingOn(sel) => Op::Ping { ts: rng.u32_boundary(), msid: sel_stream(m, sel).unwrap_or(1) },
        Sym::Control(kind, sel) => {
            // the number: a stream id in use, a request id outstanding, or a small number
            let n = match rng.below(4) {
                0 => m.outstanding.keys().next().cloned().unwrap_or(0),
                1 => rng.below(4) as u32,
                _ => sel_stream(m, sel).unwrap_or(1),
            };
            Op::Control { kind, n, msid: if rng.chance(1, 4) { sel_stream(m, sel).unwrap_or(1) } else { 0 } }
        }
        Sym::Unknown => Op::UnknownCommand,
        Sym::Accept(i) => Op::Accept { id: sel_id(m, i) },
        Sym::Reject(i) => Op::Reject { id: sel_id(m, i) },
        Sym::SendAudio(s) => {
            let (ts, data) = media(rng);
            Op::SendAudio { stream: sel_stream(m, s).unwrap_or(0), ts, data, drop: rng.coin() }
        }
        Sym::SendVideo(s) => {
            let (ts, data) = media(rng);
            Op::SendVideo { stream: sel_stream(m, s).unwrap_or(0), ts, data, drop: rng.coin() }
        }
        Sym::SendMeta(s) => Op::SendMetadata { stream: sel_stream(m, s).unwrap_or(0) },
        Sym::Finish(s) => Op::FinishPlaying { stream: sel_stream(m, s).unwrap_or(0) },
        Sym::PingRequest => Op::PingRequest,
    }
}

/// the reduced alphabet of the bounded exhaustive enumeration
pub const ENUM_ALPHABET: [Sym; 14] = [
    Sym::ConnectGood,
    Sym::CreateStream,
    Sym::Publish(StreamSel::First, ArgForm::Good),
    Sym::Play(StreamSel::First, ArgForm::Good),
    Sym::Close(StreamSel::First),
    Sym::Delete(StreamSel::First),
    Sym::Audio(StreamSel::First),
    Sym::Meta(StreamSel::First, true),
    Sym::Ping,
    Sym::Accept(IdSel::Oldest),
    Sym::Accept(IdSel::Newest),
    Sym::Accept(IdSel::Stale),
    Sym::Reject(IdSel::Oldest),
    Sym::Finish(StreamSel::First),
];

/// second enumeration alphabet: two streams, two keys, run after a fixed prefix that connects
/// and creates two streams
pub const ENUM_ALPHABET_B: [Sym; 14] = [
    Sym::Publish(StreamSel::First, ArgForm::Good),
    Sym::Publish(StreamSel::Last, ArgForm::OtherKey),
    Sym::Play(StreamSel::Last, ArgForm::Good),
    Sym::Play(StreamSel::First, ArgForm::OtherKey),
    Sym::Close(StreamSel::First),
    Sym::Delete(StreamSel::Last),
    Sym::Audio(StreamSel::First),
    Sym::Audio(StreamSel::Last),
    Sym::Meta(StreamSel::Last, true),
    Sym::Accept(IdSel::Oldest),
    Sym::Accept(IdSel::Newest),
    Sym::Reject(IdSel::Oldest),
    Sym::Finish(StreamSel::Last),
    Sym::CreateStream,
];
pub const PREFIX_B: [Sym; 4] = [Sym::ConnectGood, Sym::Accept(IdSel::Oldest), Sym::CreateStream, Sym::CreateStream];

pub fn random_sym(rng: &mut Rng, m: &Model) -> Sym {
    let ss = |rng: &mut Rng| {
        if rng.chance(1, 6) {
            StreamSel::Random(rng.u8())
        } else {
            *rng.pick(&[StreamSel::First, StreamSel::First, StreamSel::Last, StreamSel::Last, StreamSel::Deleted, StreamSel::Never, StreamSel::Zero])
        }
    };
    // bias: make progress likely (connect, accept) but keep rare orders frequent
    let progress = rng.chance(1, 3);
    if progress {
        if m.connected_app.is_none() && m.outstanding.is_empty() {
            return Sym::ConnectGood;
        }
        if !m.outstanding.is_empty() {
            return Sym::Accept(if rng.coin() { IdSel::Oldest } else { IdSel::Newest });
        }
        if m.streams.is_empty() {
            return Sym::CreateStream;
        }
        if !m.streams.values().any(|s| matches!(s, Stream::Publishing(_) | Stream::Playing(_))) {
            return if rng.coin() { Sym::Publish(StreamSel::Last, ArgForm::Good) } else { Sym::Play(StreamSel::Last, ArgForm::Good) };
        }
    }
    match rng.below(30) {
        0 => Sym::ConnectGood,
        1 => {
            if rng.chance(1, 3) {
                *rng.pick(&[Sym::ConnectNoApp, Sym::ConnectNonObject])
            } else {
                Sym::ConnectGood
            }
        }
        2 | 3 => Sym::CreateStream,
        4 | 5 => Sym::Publish(ss(rng), *rng.pick(&[ArgForm::Good, ArgForm::Good, ArgForm::OtherKey, ArgForm::TooFew, ArgForm::IllTypedKey, ArgForm::BadMode, ArgForm::IllTypedMode])),
        6 | 7 => Sym::Play(ss(rng), *rng.pick(&[ArgForm::Good, ArgForm::Good, ArgForm::OtherKey, ArgForm::TooFew, ArgForm::IllTypedKey])),
        8 | 9 => Sym::Close(if rng.chance(1, 5) { *rng.pick(&[StreamSel::NoArg, StreamSel::AliasAbove, StreamSel::AliasBelow, StreamSel::OutOfRange]) } else { ss(rng) }),
        10 | 11 => Sym::Delete(if rng.chance(1, 5) { *rng.pick(&[StreamSel::NoArg, StreamSel::AliasAbove, StreamSel::AliasBelow, StreamSel::OutOfRange]) } else { ss(rng) }),
        12 | 13 => Sym::Audio(ss(rng)),
        14 | 15 => Sym::Video(ss(rng)),
        16 => Sym::Meta(ss(rng), true),
        17 => Sym::Meta(ss(rng), rng.coin()),
        18 => Sym::OtherData(ss(rng)),
        19 => {
            if rng.chance(1, 3) {
                Sym::PingOn(ss(rng))
            } else if rng.chance(1, 2) {
                Sym::Control(rng.below(9) as u8, ss(rng))
            } else {
                Sym::Ping
            }
        }
        20 => Sym::Unknown,
        21 | 22 => Sym::Accept(*rng.pick(&[IdSel::Oldest, IdSel::Newest, IdSel::Stale, IdSel::Never])),
        23 => Sym::Reject(*rng.pick(&[IdSel::Oldest, IdSel::Newest, IdSel::Stale, IdSel::Never])),
        24 => Sym::SendAudio(ss(rng)),
        25 => Sym::SendVideo(ss(rng)),
        26 => Sym::SendMeta(ss(rng)),
        27 | 28 => Sym::Finish(ss(rng)),
        _ => Sym::PingRequest,
    }
}

/// Run one history; `next` yields the symbol for each step (None = end).
pub fn run_history(next: &mut dyn FnMut(usize, &Model, &mut Rng) -> Option<Sym>, rng: &mut Rng, out: &mut Out) -> bool {
    out.eval(1);
    let mut cfg = ServerSessionConfig::new();
    cfg.fms_version = rng.spice(cfg.fms_version.clone());
    cfg.chunk_size = *rng.pick(&[4096u32, 128, 1]);
    let (mut rig, init) = match ServerRig::new(cfg, 1000) {
        Ok(x) => x,
        Err(e) => {
            out.violation("server-session-new-fails", json!({ "error": e }));
            return false;
        }
    };
    if let Err(e) = sessprep::decode_packets(&mut rig.dec, &init.packets) {
        out.violation("session-output-not-decodable", json!({ "clause": e, "at": "initial packets" }));
        return false;
    }
    let mut model = Model::new();
    let mut log: Vec<Value> = Vec::new();
    let mut shape = 0u64;
    let mut step = 0usize;
    loop {
        let sym = match next(step, &model, rng) {
            Some(s) => s,
            None => break,
        };
        let op = resolve(sym, &model, rng, step);
        let class_before = model.state_class();
        let obs = match execute(&mut rig, &op) {
            Ok(o) => o,
            Err((loc, msg)) => {
                out.violation(&panic_signature(&loc, &msg), json!({"panic_at": loc, "panic_message": msg, "op": op_json(&op), "history": log}));
                return false;
            }
        };
        if obs.error.starts_with("UNDECODABLE") {
            out.violation("session-output-not-decodable", json!({"clause": obs.error, "op": op_json(&op), "history": log}));
            return false;
        }
        if log.len() < 90 {
            log.push(json!({"op": op_json(&op), "ok": obs.ok, "error": obs.error.chars().take(80).collect::<String>(), "events": obs.events.iter().map(|e| format!("{:?}", e).chars().take(100).collect::<String>()).collect::<Vec<_>>(),
                "responses": obs.tags.iter().map(|t| format!("{:?}", t).chars().take(100).collect::<String>()).collect::<Vec<_>>()}));
        }
        let sym_name = format!("{:?}", sym);
        let sym_class = sym_name.split('(').next().unwrap_or("?").to_string();
        out.count(&format!("transition_{}__{}", class_before, sym_class), 1);
        shape = mix(shape, mix(crate::rng::fnv(class_before.as_bytes()), crate::rng::fnv(sym_name.as_bytes())));
        match model.step(&op, &obs) {
            Verdict::Agree => {}
            Verdict::EndedByExpectedError => {
                out.count("histories_ended_by_expected_session_error", 1);
                break;
            }
            Verdict::UnspecifiedChanged(why) => {
                out.count("unspecified_behaviour_changed", 1);
                if out.verbose {
                    eprintln!("unspecified-behaviour-changed: {} at {:?}", why, op);
                }
                break;
            }
            Verdict::Diverge(clause, why) => {
                out.violation(&format!("diverges-from-state-machine:{}", clause), json!({"explanation": why, "op": op_json(&op), "model_state": model.state_class(), "history": log}));
                return false;
            }
        }
        step += 1;
    }
    for c in model.corners.iter() {
        out.count(&format!("corner_{}", c), 1);
    }
    out.count("steps_agreeing", step as u64);
    out.count("histories_agreeing", 1);
    out.count(&format!("final_state_{}", model.state_class()), 1);
    if step >= 2 {
        out.shape(shape);
    }
    out.sample(|| json!({"history": log}));
    true
}

impl C09 {
    pub fn enum_len(tier: Tier) -> usize {
        tier.pick(5, 6)
    }
}

impl Check for C09 {
    fn id(&self) -> &'static str {
        "C09"
    }
    fn plan(&self, tier: Tier) -> Plan {
        let mut p = Plan::new(392 + tier.pick(300_000, 30_000_000), tier.pick(35.0, 480.0));
        p.mandatory = 392;
        p.cpu_budget_s = 120.0;
        p
    }
    fn run_case(&self, tier: Tier, k: u64, rng: &mut Rng, out: &mut Out) {
        let _cg = ClockGuard;
        if k < 196 {
            // bounded exhaustive: the first two symbols are fixed by the case, the rest enumerated
            let l = Self::enum_len(tier);
            let a = (k / 14) as usize;
            let b = (k % 14) as usize;
            let rest = l - 2;
            let total = 14usize.pow(rest as u32);
            let mut n = 0u64;
            // all sequences of length exactly l with this prefix; shorter ones are their prefixes
            for code in 0..total {
                let mut seq = vec![ENUM_ALPHABET[a], ENUM_ALPHABET[b]];
                let mut c = code;
                for _ in 0..rest {
                    seq.push(ENUM_ALPHABET[c % 14]);
                    c /= 14;
                }
                let mut it = |i: usize, _m: &Model, _r: &mut Rng| seq.get(i).cloned();
                if !run_history(&mut it, rng, out) {
                    return;
                }
                n += 1;
            }
            out.count("enumerated_sequences", n);
            return;
        }
        if k < 392 {
            // second alphabet (two streams, two keys) after a fixed connecting prefix; one
            // symbol shorter than the first enumeration
            let l = Self::enum_len(tier) - 1;
            let k = k - 196;
            let a = (k / 14) as usize;
            let b = (k % 14) as usize;
            let rest = l - 2;
            let total = 14usize.pow(rest as u32);
            let mut n = 0u64;
            for code in 0..total {
                let mut seq: Vec<Sym> = PREFIX_B.to_vec();
                seq.push(ENUM_ALPHABET_B[a]);
                seq.push(ENUM_ALPHABET_B[b]);
                let mut c = code;
                for _ in 0..rest {
                    seq.push(ENUM_ALPHABET_B[c % 14]);
                    c /= 14;
                }
                let mut it = |i: usize, _m: &Model, _r: &mut Rng| seq.get(i).cloned();
                if !run_history(&mut it, rng, out) {
                    return;
                }
                n += 1;
            }
            out.count("enumerated_sequences_two_streams", n);
            return;
        }
        let len = match rng.below(40) {
            0 => rng.usize(200, 400), // long histories: state left over from much earlier
            1..=9 => rng.usize(5, 12),
            10..=19 => rng.usize(40, 80),
            _ => rng.usize(10, 40),
        };
        // "many of the same" mode: one symbol repeated 129..1100 times somewhere in the walk
        // (tables with a cap, counters with a limit), then the walk goes on
        let burst: Option<(usize, usize, Sym)> = if rng.chance(1, 60) {
            // (1 burst in 60: more than 65,536 repetitions)
            let n = if rng.chance(1, 60) { *rng.pick(&[65_537usize, 66_000]) } else { *rng.pick(&[129usize, 130, 200, 257, 300, 1025, 1100]) };
            let sym = *rng.pick(&[
                Sym::Publish(StreamSel::Last, ArgForm::Good),
                Sym::Play(StreamSel::Last, ArgForm::Good),
                Sym::ConnectGood,
                Sym::CreateStream,
                Sym::Ping,
                Sym::Audio(StreamSel::Last),
                Sym::Publish(StreamSel::First, ArgForm::OtherKey),
            ]);
            Some((rng.usize(2, 8), n, sym))
        } else {
            None
        };
        let total = len + burst.map(|b| b.1).unwrap_or(0);
        let mut it = |i: usize, m: &Model, r: &mut Rng| {
            if i >= total {
                return None;
            }
            if let Some((at, n, sym)) = burst {
                if i >= at && i < at + n {
                    return Some(sym);
                }
                if i == at + n {
                    // answer the oldest of what piled up
                    return Some(Sym::Accept(IdSel::Oldest));
                }
            }
            Some(random_sym(r, m))
        };
        if burst.is_some() {
            out.count("walks_with_a_burst_of_one_symbol", 1);
        }
        run_history(&mut it, rng, out);
    }
    fn rule(&self) -> String {
        "histories over peer messages {connect (good / no app / non-object), createStream, publish and play (good, other key, too few, ill-typed key, bad mode, ill-typed mode; on the first, last, a deleted, a never-created stream id and stream 0), closeStream/deleteStream (same stream choices, no argument, or a number that names no stream: 2^32 + id, id - 2^32, -1, 2^32, +-1e300), audio, video, @setDataFrame+onMetaData (well formed or not), other data, ping request, unknown command} encoded by the independent encoder, and application calls {accept/reject with the oldest, newest, an already-used and a never-issued id; send audio/video/metadata; finish_playing; ping}. Random walks of 5-80 steps (1 in 40 of 200-400 steps; 1 in 60 with a burst of 129-1100 (1 in 60 of them: 65,537 or 66,000) repetitions of one symbol followed by an accept of the oldest request), one third of the steps biased towards protocol progress, the rest uniform (rare orders: commands before connect, re-publish after close, second publisher, media on closed streams, second connect). Bounded exhaustive: all sequences of length 5 (thorough 6) over a 14-symbol reduced alphabet, and all sequences of length 4 (thorough 5) over a second 14-symbol alphabet (two streams, two keys, accept/reject of oldest and newest) run after the fixed prefix connect, accept, createStream, createStream. After every step events, decoded responses and Ok/Err are compared with model::server. distinct = hash of the (model state class, symbol) sequence.".to_string()
    }
    fn assumptions(&self) -> Vec<String> {
        vec![
            "request numbering is not asserted, only freshness; response texts and the order of packets within one result list are not asserted".to_string(),
            "a stream has one current activity: the last accepted request on it (DESIGN section 5)".to_string(),
            "corners the statement is silent on (accept for a stream deleted meanwhile or never created; close/delete before a connection was accepted) mirror today's behaviour; a deviation is counted as unspecified-behaviour-changed and ends that history".to_string(),
            "stream ids in close/delete are integers; fractional/NaN ids are exercised for C03 only".to_string(),
        ]
    }
    fn required_counters(&self, _tier: Tier) -> Vec<String> {
        vec![
            "histories_agreeing".into(),
            "enumerated_sequences".into(),
            "enumerated_sequences_two_streams".into(),
            "histories_ended_by_expected_session_error".into(),
            "corner_accept-for-missing-stream".into(),
            "walks_with_a_burst_of_one_symbol".into(),
        ]
    }
    fn exhaustive_part(&self, tier: Tier) -> Option<String> {
        Some(format!("all 14^{} operation sequences of length {} over the reduced alphabet (and thereby all shorter ones), and all 14^{} sequences over the two-stream alphabet after the connecting prefix", Self::enum_len(tier), Self::enum_len(tier), Self::enum_len(tier) - 1))
    }
}
