//! C06 - the real deserializer decodes every spec-conformant foreign chunk stream.

use super::c01::lib_decode_partitioned;
use super::foreign::{self, ForeignCfg};
use crate::fw::{lib_call, Check, Out, Plan, Tier};
use crate::refs::chunk::{self, Decoder};
use crate::rng::{mix, partition, Rng};
use serde_json::json;

pub struct C06;

impl Check for C06 {
    fn id(&self) -> &'static str {
        "C06"
    }
    fn plan(&self, tier: Tier) -> Plan {
        let mut p = Plan::new(tier.pick(350_000, 35_000_000), tier.pick(30.0, 420.0));
        p.mandatory = 1;
        p.cpu_budget_s = 60.0;
        p
    }
    fn selftest(&self) -> Result<(), String> {
        chunk::selftest()
    }
    fn run_case(&self, _tier: Tier, k: u64, rng: &mut Rng, out: &mut Out) {
        if k == 0 {
            // large in-band chunk sizes x large messages (a foreign sender may send a 16 MiB
            // message in one chunk after announcing a chunk size that allows it)
            // ... and tiny chunk sizes: one message in more than 65,536 chunks
            for (size, len) in [(0x80_0000u32, 0x80_0001usize), (0x80_0001, 0x80_0001), (0xFF_FFFF, 16_777_215), (0x7FFF_FFFF, 16_777_215), (0x100_0000, 9_000_000), (1, 65_536), (1, 65_537), (1, 70_000), (2, 131_073)] {
                out.eval(1);
                let mut enc = chunk::Encoder::new();
                let scs = chunk::set_chunk_size_msg(size, 0);
                let mut wire = enc.encode_simple(&scs, 2);
                enc.chunk_size = size as usize;
                let big = chunk::Msg { type_id: 9, msid: 1, ts: 7, data: (0..len).map(|i| (i >> 3) as u8 ^ i as u8).collect() };
                let small = chunk::Msg { type_id: 8, msid: 1, ts: 9, data: vec![1, 2, 3] };
                wire.extend(enc.encode_simple(&big, 6));
                wire.extend(enc.encode_simple(&small, 4));
                let want = vec![scs, big, small];
                let scs_pos = vec![Some(size), None, None];
                let mid = wire.len() / 2;
                for parts in [vec![wire.len()], vec![mid, wire.len() - mid]] {
                    match lib_call(out, "ChunkDeserializer::get_next_message", || json!({"chunk_size": size, "payload": len}), || lib_decode_partitioned(&wire, &parts, &scs_pos)) {
                        Some(Ok(got)) if got == want => out.count("large_chunk_large_message_streams", 1),
                        Some(Ok(got)) => {
                            out.violation(
                                &format!("conformant-stream-decoded-differently:{}", chunk::first_difference_class(&got, &want).unwrap_or("?")),
                                json!({"in_band_chunk_size": size, "message_length": len, "difference": chunk::first_difference(&got, &want)}),
                            );
                            return;
                        }
                        Some(Err((e, got))) => {
                            out.violation("deserializer-error-on-conformant-stream", json!({"in_band_chunk_size": size, "message_length": len, "error": e, "messages_before_error": got.len()}));
                            return;
                        }
                        None => return,
                    }
                }
            }
            return;
        }
        let cfg = ForeignCfg {
            max_msgs: 30,
            max_len: if k % 40 == 0 { 300_000 } else { 5000 },
            max_chunks: 2000,
            scs_pct: 8,
            nonminimal_ok: true,
            many_one_in: 300,
        };
        let f = foreign::gen_foreign(rng, &cfg);
        let wire = f.wire();
        out.eval(1);
        // harness self-consistency: the independent decoder must read back what the independent
        // encoder wrote; this also yields the observation matrix
        let mut rd = Decoder::new(false);
        let back = rd.feed(&wire).unwrap_or_else(|e| panic!("harness: reference decoder rejects reference encoder output: {}", e));
        assert!(back == f.msgs && rd.idle(), "harness: reference encoder/decoder disagree");
        let mut h = 0u64;
        for t in rd.mtrace.iter() {
            out.count(&format!("csidform{}_fmt{}_{}", t.bh_len, t.fmt, if t.ext { "ext" } else { "noext" }), 1);
            if t.cont_ext > 0 {
                out.count("continuation_chunks_with_extended_timestamp", t.cont_ext as u64);
            }
            if t.chunks > 1 {
                out.count("multi_chunk_messages", 1);
            }
            h = mix(h, (t.bh_len as u64) << 8 | (t.fmt as u64) << 4 | (t.ext as u64) << 1 | (t.chunks > 1) as u64);
        }
        out.count("zero_length_messages", f.msgs.iter().filter(|m| m.data.is_empty()).count() as u64);
        out.count("in_band_chunk_size_changes", f.scs.iter().filter(|s| s.is_some()).count() as u64);
        out.count("messages", f.msgs.len() as u64);
        if rd.mtrace.iter().any(|t| t.fmt != 0 || t.ext || t.chunks > 1 || t.bh_len > 1) {
            out.shape(h);
        }
        out.sample(|| json!({"messages": f.to_json(), "wire_bytes": wire.len(), "wire_head": crate::rng::hex_short(&wire, 120)}));
        let mut parts_list: Vec<(String, Vec<usize>)> = vec![("whole".into(), vec![wire.len()])];
        // per chunk
        parts_list.push(("per-chunk".into(), f.chunks.iter().flat_map(|m| m.iter().map(|c| c.len())).collect()));
        for _ in 0..3 {
            let kind = 1 + rng.below(5) as u32;
            parts_list.push((format!("kind{}", kind), partition(rng, wire.len(), kind)));
        }
        for (name, parts) in parts_list.iter() {
            out.count("partitions_run", 1);
            let r = match lib_call(out, "ChunkDeserializer::get_next_message", || json!({"partition": name, "messages": f.to_json(), "wire": crate::rng::hex_short(&wire, 400)}), || {
                lib_decode_partitioned(&wire, parts, &f.scs)
            }) {
                Some(r) => r,
                None => return,
            };
            match r {
                Err((e, got)) => {
                    out.violation(
                        "deserializer-error-on-conformant-stream",
                        json!({"error": e, "partition": name, "messages_before_error": got.len(), "messages": f.to_json(), "wire": crate::rng::hex_short(&wire, 400)}),
                    );
                    return;
                }
                Ok(got) => {
                    if let Some(class) = chunk::first_difference_class(&got, &f.msgs) {
                        out.violation(
                            &format!("conformant-stream-decoded-differently:{}", class),
                            json!({"difference": chunk::first_difference(&got, &f.msgs), "partition": name, "messages": f.to_json(), "wire": crate::rng::hex_short(&wire, 400)}),
                        );
                        return;
                    }
                }
            }
        }
        out.count("streams_decoded_exactly", 1);
    }
    fn rule(&self) -> String {
        "message lists (1-30 messages, monotone 64-bit sender clocks per chunk stream so deltas are non-negative and < 2^32; absolute restarts via format 0) encoded by the independent encoder with free choices: csid from {2..63}, {64..319 in 2-byte and 3-byte form}, {320..65599}; per message any format legal after the previous chunk on that csid, biased to the most compressed (format 3 for a new message when the delta repeats, incl. directly after a format 0 and after an extended timestamp); extended timestamps on first and continuation chunks; zero-length messages; in-band SetChunkSize {1,2,3,31,127..129,1000,4096,70000,2^24,2^31-1}. Each stream is delivered whole, per chunk and in 3 random partitions. Non-trivial = uses a compressed header, extended timestamp, multi-byte csid or multi-chunk message; distinct = hash of the (csid form, fmt, ext, multi-chunk) sequence.".to_string()
    }
    fn assumptions(&self) -> Vec<String> {
        vec![
            "messages are sent strictly one after another (interleaving is C16)".to_string(),
            "the harness applies a decoded SetChunkSize to the deserializer before the next call, as the sessions do".to_string(),
            "a type-3 chunk directly after a type-0 chunk on the same csid uses that chunk's timestamp as delta (RTMP 5.3.1.2.4)".to_string(),
        ]
    }
    fn required_counters(&self, _tier: Tier) -> Vec<String> {
        let mut v = vec!["streams_decoded_exactly".to_string(), "large_chunk_large_message_streams".to_string(), "zero_length_messages".into(), "in_band_chunk_size_changes".into(), "continuation_chunks_with_extended_timestamp".into()];
        for form in 1..=3 {
            for fmt in 0..4 {
                for e in ["ext", "noext"] {
                    v.push(format!("csidform{}_fmt{}_{}", form, fmt, e));
                }
            }
        }
        v
    }
}
