//! C15 - results do not depend on how the input byte stream is split across calls.
//! The finest partition (byte by byte) is the reference history; every other partition is checked
//! call by call against it.  DESIGN section 4, C15.

use super::c02::ClockGuard;
use super::c03;
use super::chunkgen::{self, GenCfg};
use super::foreign::{self, ForeignCfg};
use super::sessprep::{self, CLIENT_STATES, SERVER_STATES};
use crate::fw::{guarded, panic_signature, Check, Out, Plan, Tier};
use crate::refs::chunk::{ChunkLog, Decoder, Encoder, Msg};
use crate::refs::msg::RMsg;
use crate::rng::{hex_short, mix, partition, Rng};
use rml_rtmp::chunk_io::ChunkDeserializer;
use rml_rtmp::messages::RtmpMessage;
use serde_json::{json, Value};

pub struct C15;

/// one normalised output item
#[derive(Debug, Clone, PartialEq)]
enum Item {
    Msg(Msg),
    /// canonical rendering of an event (sessprep::norm_*_event)
    Event(String),
    /// decoded outbound message (msid, ts, body)
    Sent(u32, u32, RMsg),
    Undecodable(String),
    Unhandled(Msg),
}

fn brief(i: &Item) -> String {
    let s = match i {
        Item::Msg(m) => format!("message {}", m.brief()),
        Item::Event(e) => format!("event {}", e),
        Item::Sent(msid, ts, m) => format!("response msid {} ts {} {}", msid, ts, m.to_json()),
        Item::Undecodable(e) => format!("undecodable response: {}", e),
        Item::Unhandled(m) => format!("unhandleable message {}", m.brief()),
    };
    s.chars().take(260).collect()
}

trait Target {
    /// one input call; Ok(outputs) or Err(error kind)
    fn call(&mut self, piece: &[u8]) -> Result<Vec<Item>, String>;
}

struct DeserTarget {
    d: ChunkDeserializer,
}

impl Target for DeserTarget {
    fn call(&mut self, piece: &[u8]) -> Result<Vec<Item>, String> {
        let mut out = Vec::new();
        let mut input: &[u8] = piece;
        loop {
            match self.d.get_next_message(input) {
                Err(e) => return Err(error_kind(&format!("{:?}", e))),
                Ok(None) => return Ok(out),
                Ok(Some(p)) => {
                    if p.type_id == 1 {
                        // as the sessions do: honour a decoded chunk-size change before the next call
                        if let Ok(RtmpMessage::SetChunkSize { size }) = p.to_rtmp_message() {
                            let _ = self.d.set_max_chunk_size(size as usize);
                        }
                    }
                    out.push(Item::Msg(crate::adapt::from_payload(&p)));
                }
            }
            input = &[];
        }
    }
}

fn error_kind(debug: &str) -> String {
    // variant names down to the innermost error, without payloads that may embed positions
    let mut s = String::new();
    for c in debug.chars() {
        if c.is_ascii_alphanumeric() || c == '(' {
            s.push(c);
        } else if c == '{' || c == ' ' {
            break;
        }
    }
    s.chars().take(120).collect()
}

struct ServerTarget {
    rig: sessprep::ServerRig,
}

fn normalise_packets(dec: &mut Decoder, packets: &[Vec<u8>], out: &mut Vec<Item>) {
    match sessprep::decode_packets(dec, packets) {
        Ok(ms) => {
            for (msid, ts, m) in ms {
                if let RMsg::Ack(_) = m {
                    continue; // acknowledgements are per-call by definition (C17)
                }
                out.push(Item::Sent(msid, ts, m.canon()));
            }
        }
        Err(e) => out.push(Item::Undecodable(e)),
    }
}

impl Target for ServerTarget {
    fn call(&mut self, piece: &[u8]) -> Result<Vec<Item>, String> {
        self.rig.tick();
        match self.rig.s.handle_input(piece) {
            Err(e) => Err(error_kind(&format!("{:?}", e))),
            Ok(rs) => {
                // results in the order the session returned them
                let mut out = Vec::new();
                for r in rs {
                    match r {
                        rml_rtmp::sessions::ServerSessionResult::RaisedEvent(e) => out.push(Item::Event(sessprep::norm_server_event(&e))),
                        rml_rtmp::sessions::ServerSessionResult::OutboundResponse(p) => normalise_packets(&mut self.rig.dec, &[p.bytes], &mut out),
                        rml_rtmp::sessions::ServerSessionResult::UnhandleableMessageReceived(p) => out.push(Item::Unhandled(crate::adapt::from_payload(&p))),
                    }
                }
                Ok(out)
            }
        }
    }
}

struct ClientTarget {
    rig: sessprep::ClientRig,
}

impl Target for ClientTarget {
    fn call(&mut self, piece: &[u8]) -> Result<Vec<Item>, String> {
        self.rig.tick();
        match self.rig.s.handle_input(piece) {
            Err(e) => Err(error_kind(&format!("{:?}", e))),
            Ok(rs) => {
                let mut out = Vec::new();
                for r in rs {
                    match r {
                        rml_rtmp::sessions::ClientSessionResult::RaisedEvent(e) => out.push(Item::Event(sessprep::norm_client_event(&e))),
                        rml_rtmp::sessions::ClientSessionResult::OutboundResponse(p) => normalise_packets(&mut self.rig.dec, &[p.bytes], &mut out),
                        rml_rtmp::sessions::ClientSessionResult::UnhandleableMessageReceived(p) => out.push(Item::Unhandled(crate::adapt::from_payload(&p))),
                    }
                }
                Ok(out)
            }
        }
    }
}

struct Reference {
    /// outputs[i] = what the call delivering byte i returned
    outputs: Vec<Vec<Item>>,
    /// (offset of the byte whose delivery failed, error kind)
    error: Option<(usize, String)>,
}

fn stage_of(log: &[ChunkLog], cut: usize, total: usize) -> Option<(&'static str, u8)> {
    // which parser stage does the byte right after `cut` belong to
    if cut == 0 || cut >= total {
        return None;
    }
    let c = cut as u64;
    let idx = match log.binary_search_by(|l| l.offset.cmp(&c)) {
        Ok(_) => return Some(("chunk-boundary", 4)),
        Err(0) => return None,
        Err(i) => i - 1,
    };
    let l = &log[idx];
    let rel = (c - l.offset) as usize;
    let bh = l.bh as usize;
    let mh = match l.fmt {
        0 => 11,
        1 => 7,
        2 => 3,
        _ => 0,
    };
    let ext = if l.ext { 4 } else { 0 };
    let stage = if rel < bh {
        "csid"
    } else if rel < bh + mh.min(3) {
        "timestamp"
    } else if rel < bh + mh.min(6) {
        "length"
    } else if rel < bh + mh.min(7) {
        "type-id"
    } else if rel < bh + mh {
        "stream-id"
    } else if rel < bh + mh + ext {
        "extended-timestamp"
    } else if rel < bh + mh + ext + l.payload {
        "payload"
    } else {
        return None;
    };
    Some((stage, l.fmt))
}

fn run_stream(
    make: &mut dyn FnMut() -> Box<dyn Target>,
    bytes: &[u8],
    chunk_log: &[ChunkLog],
    origin: &str,
    target_name: &str,
    rng: &mut Rng,
    out: &mut Out,
    nparts: usize,
) {
    out.eval(1);
    let ctx = |extra: Value| json!({"origin": origin, "target": target_name, "stream": hex_short(bytes, 500), "stream_len": bytes.len(), "detail": extra});
    // ---- reference history: byte by byte
    let r = guarded(|| {
        let mut t = make();
        let mut reference = Reference { outputs: Vec::with_capacity(bytes.len()), error: None };
        for i in 0..bytes.len() {
            match t.call(&bytes[i..i + 1]) {
                Ok(o) => reference.outputs.push(o),
                Err(e) => {
                    reference.error = Some((i, e));
                    break;
                }
            }
        }
        reference
    });
    let reference = match r {
        Ok(r) => r,
        Err((loc, msg)) => {
            out.violation(&panic_signature(&loc, &msg), json!({"panic_at": loc, "panic_message": msg, "context": ctx(json!("byte-by-byte reference run"))}));
            return;
        }
    };
    let delivered: usize = reference.outputs.iter().map(|o| o.len()).sum();
    out.count("reference_items_delivered", delivered as u64);
    out.count(if reference.error.is_some() { "streams_with_error" } else { "streams_without_error" }, 1);
    if let Some((_, k)) = &reference.error {
        out.count(&format!("error_kind_{}", k.chars().take(60).collect::<String>()), 1);
    }
    // ---- other partitions
    let mut partitions: Vec<(String, Vec<usize>)> = vec![("whole".into(), vec![bytes.len()])];
    if !chunk_log.is_empty() {
        // per chunk
        let mut p = Vec::new();
        let mut prev = 0usize;
        for l in chunk_log.iter().skip(1) {
            p.push(l.offset as usize - prev);
            prev = l.offset as usize;
        }
        p.push(bytes.len() - prev);
        if p.iter().sum::<usize>() == bytes.len() {
            partitions.push(("per-chunk".into(), p));
        }
        // targeted: cuts inside headers
        for _ in 0..nparts {
            let mut cuts: Vec<usize> = Vec::new();
            for _ in 0..rng.usize(1, 6) {
                let l = rng.pick(chunk_log);
                let hdr = l.bh as usize + [11usize, 7, 3, 0][l.fmt as usize] + if l.ext { 4 } else { 0 };
                let c = l.offset as usize + rng.usize(0, hdr + 1);
                if c > 0 && c < bytes.len() {
                    cuts.push(c);
                }
            }
            cuts.sort();
            cuts.dedup();
            let mut p = Vec::new();
            let mut prev = 0;
            for c in cuts.iter() {
                p.push(c - prev);
                prev = *c;
            }
            p.push(bytes.len() - prev);
            partitions.push(("targeted-header-cuts".into(), p));
        }
    }
    for _ in 0..nparts {
        let kind = 2 + rng.below(4) as u32;
        partitions.push((format!("kind{}", kind), partition(rng, bytes.len(), kind)));
    }
    for (name, parts) in partitions.iter() {
        out.count("partitions_compared", 1);
        // stage coverage of the cut points
        let mut pos = 0;
        for n in parts.iter() {
            pos += n;
            if let Some((stage, fmt)) = stage_of(chunk_log, pos, bytes.len()) {
                if stage == "chunk-boundary" {
                    out.count("split_at_chunk_boundary", 1);
                } else {
                    out.count(&format!("split_in_{}_of_fmt{}", stage, fmt), 1);
                }
            }
        }
        let r = guarded(|| {
            let mut t = make();
            let mut s = 0usize;
            for (ci, n) in parts.iter().enumerate() {
                let e = s + n;
                let got = t.call(&bytes[s..e]);
                // what the reference delivered for offsets s..e
                let err_here = match &reference.error {
                    Some((b, k)) if *b >= s && *b < e => Some(k.clone()),
                    _ => None,
                };
                match (got, err_here) {
                    (Err(g), Some(k)) => {
                        if g != k {
                            return Some(("error-kind-differs-between-partitions".to_string(), json!({"call": ci, "offsets": [s, e], "this_partition": g, "byte_by_byte": k})));
                        }
                        return None; // comparison stops at the first error
                    }
                    (Err(g), None) => {
                        return Some(("error-in-one-partition-only".to_string(), json!({"call": ci, "offsets": [s, e], "this_partition_error": g, "byte_by_byte_error_at": reference.error.as_ref().map(|x| x.0)})));
                    }
                    (Ok(_), Some(k)) => {
                        return Some(("error-missed-by-one-partition".to_string(), json!({"call": ci, "offsets": [s, e], "byte_by_byte_error": k, "at": reference.error.as_ref().map(|x| x.0)})));
                    }
                    (Ok(g), None) => {
                        let upto = e.min(reference.outputs.len());
                        let mut want: Vec<Item> = Vec::new();
                        for o in reference.outputs[s.min(upto)..upto].iter() {
                            want.extend(o.iter().cloned());
                        }
                        if g != want {
                            let first = g.iter().zip(want.iter()).position(|(a, b)| a != b).map(|i| (brief(&g[i]), brief(&want[i])));
                            return Some((
                                "delivered-results-differ-between-partitions".to_string(),
                                json!({"call": ci, "offsets": [s, e], "this_partition_items": g.len(), "byte_by_byte_items": want.len(), "first_difference(this, byte_by_byte)": first}),
                            ));
                        }
                    }
                }
                s = e;
            }
            None
        });
        match r {
            Err((loc, msg)) => {
                out.violation(&panic_signature(&loc, &msg), json!({"panic_at": loc, "panic_message": msg, "context": ctx(json!({"partition": name}))}));
                return;
            }
            Ok(Some((sig, d))) => {
                out.violation(&sig, ctx(json!({"partition": name, "pieces": parts.iter().take(40).collect::<Vec<_>>(), "difference": d})));
                return;
            }
            Ok(None) => {}
        }
    }
    out.count("streams_partition_independent", 1);
}

fn chunk_log_of(bytes: &[u8], chunk_size: usize) -> Vec<ChunkLog> {
    let mut d = Decoder::new(false);
    d.chunk_size = chunk_size;
    d.keep_mtrace = false;
    d.chunk_log = Some(Vec::new());
    let _ = d.feed(bytes);
    d.chunk_log.take().unwrap_or_default()
}

/// A valid stream of more than 16 MiB (17 messages of 1 MiB and a ping, chunk size 1 MiB announced
/// in-band) delivered in one call and in 64 KiB pieces: the concatenated results must be the same
/// (a byte-by-byte reference is too slow at this size; which two partitions are compared does not
/// matter for the property).
fn big_stream_case(which: u64, out: &mut Out) {
    out.eval(1);
    let mut enc = Encoder::new();
    let mut wire = enc.encode_simple(&crate::refs::chunk::set_chunk_size_msg(1 << 20, 0), 2);
    enc.chunk_size = 1 << 20;
    for i in 0..17u32 {
        let data: Vec<u8> = (0..(1usize << 20) + i as usize).map(|j| (j as u32).wrapping_mul(2654435761).wrapping_add(i) as u8).collect();
        wire.extend(enc.encode_simple(&Msg { type_id: 22, msid: 0, ts: i, data }, 7));
    }
    wire.extend(enc.encode_simple(&Msg { type_id: 4, msid: 0, ts: 99, data: vec![0, 6, 0, 0, 0, 5] }, 2));
    let name = ["ChunkDeserializer", "ServerSession[started]", "ClientSession[disconnected]"][which as usize];
    let mut make = || -> Box<dyn Target> {
        match which {
            0 => Box::new(DeserTarget { d: ChunkDeserializer::new() }),
            1 => {
                let mut r = Rng::new(1);
                let (mut rig, _) = sessprep::prep_server(0, &mut r).unwrap_or_else(|e| panic!("harness: {}", e));
                rig.clock_step = 0;
                Box::new(ServerTarget { rig })
            }
            _ => {
                let mut r = Rng::new(1);
                let mut rig = sessprep::prep_client(0, &mut r).unwrap_or_else(|e| panic!("harness: {}", e));
                rig.clock_step = 0;
                Box::new(ClientTarget { rig })
            }
        }
    };
    let mut run = |pieces: &[usize]| -> Result<(Vec<String>, Option<String>), (String, String)> {
        let mut t = make();
        let wire = &wire;
        guarded(move || {
            let mut all: Vec<String> = Vec::new();
            let mut pos = 0;
            for n in pieces {
                match t.call(&wire[pos..pos + n]) {
                    Ok(items) => all.extend(items.iter().map(|i| match i { Item::Msg(m) | Item::Unhandled(m) => format!("type {} len {} ts {} sum {}", m.type_id, m.data.len(), m.ts, crate::rng::fnv(&m.data)), other => brief(other) })),
                    Err(e) => return (all, Some(e)),
                }
                pos += n;
            }
            (all, None)
        })
    };
    let len = wire.len();
    let whole = vec![len];
    let mut pieces = vec![65_536usize; len / 65_536];
    if len % 65_536 != 0 {
        pieces.push(len % 65_536);
    }
    let a = run(&whole);
    let b = run(&pieces);
    match (a, b) {
        (Ok(a), Ok(b)) => {
            if a.1 != b.1 {
                out.violation("error-in-one-partition-only", json!({"target": name, "stream": "17 messages of 1 MiB and a ping, more than 16 MiB", "one_call": a.1, "64KiB_pieces": b.1}));
            } else if a.0 != b.0 {
                out.violation("delivered-results-differ-between-partitions", json!({"target": name, "stream": "17 messages of 1 MiB and a ping, more than 16 MiB", "one_call_results": a.0.len(), "64KiB_pieces_results": b.0.len()}));
            } else {
                out.count("streams_of_more_than_16_MiB_partition_independent", 1);
            }
        }
        (Err((loc, msg)), _) | (_, Err((loc, msg))) => out.violation(&panic_signature(&loc, &msg), json!({"target": name, "panic_at": loc, "panic_message": msg})),
    }
}

impl Check for C15 {
    fn id(&self) -> &'static str {
        "C15"
    }
    fn plan(&self, tier: Tier) -> Plan {
        let mut p = Plan::new(tier.pick(480_000, 48_000_000), tier.pick(30.0, 420.0));
        p.cpu_budget_s = 60.0;
        p.mandatory = 3;
        p
    }
    fn selftest(&self) -> Result<(), String> {
        crate::refs::chunk::selftest()
    }
    fn run_case(&self, tier: Tier, k: u64, rng: &mut Rng, out: &mut Out) {
        let _cg = ClockGuard;
        if k < 3 {
            big_stream_case(k, out);
            return;
        }
        let nparts = tier.pick(3, 8);
        let target = k % 3;
        let origin_i = (k / 3) % 4;
        let origins = ["library-serializer", "foreign-conformant", "mutated-invalid", "hostile-chunks"];
        let origin = origins[origin_i as usize];
        let prep_seed = rng.next();
        match target {
            0 => {
                // bare deserializer
                let bytes: Vec<u8> = match origin_i {
                    0 if rng.chance(1, 300) => {
                        // one message in more than 65,536 chunks
                        let mut enc = Encoder::new();
                        c03::gen_stream_for_c15(7, rng, &mut enc, 1)
                    }
                    0 => {
                        let cfg = GenCfg { max_ops: 12, allow_user_type1: false, drop_pct: 0, max_payload: 3000, max_chunks: 300, set_chunk_pct: 10 };
                        let ops = chunkgen::gen_history(rng, &cfg);
                        let ser = chunkgen::serialize_history(&ops, out, &|| chunkgen::ops_json(&ops));
                        if !ser.all_ok {
                            return;
                        }
                        ser.packets.iter().flat_map(|p| p.as_ref().unwrap().bytes.clone()).collect()
                    }
                    1 | 2 => {
                        let cfg = ForeignCfg { max_msgs: 12, max_len: 2500, max_chunks: 300, scs_pct: 8, nonminimal_ok: true, many_one_in: 150 };
                        let f = foreign::gen_foreign(rng, &cfg);
                        let w = f.wire();
                        if origin_i == 2 {
                            c03_mutate(rng, w)
                        } else {
                            w
                        }
                    }
                    _ => c03::hostile_for_c15(rng, 128),
                };
                let log = chunk_log_of(&bytes, 128);
                let mut make = || -> Box<dyn Target> { Box::new(DeserTarget { d: ChunkDeserializer::new() }) };
                run_stream(&mut make, &bytes, &log, origin, "ChunkDeserializer", rng, out, nparts);
                out.shape(mix(mix(target, origin_i), mix(log.len() as u64 % 32, bytes.len() as u64 % 64)));
                out.sample(|| json!({"target": "ChunkDeserializer", "origin": origin, "stream_len": bytes.len(), "chunks": log.len(), "head": hex_short(&bytes, 80)}));
            }
            1 | _ => {
                let server = target == 1;
                let state = rng.usize(0, 9);
                // build the stream once with a peer encoder that continues the prefix
                let (bytes, chunk_size) = {
                    let mut r2 = Rng::new(prep_seed);
                    let (mut enc, hint): (Encoder, u32) = if server {
                        let (rig, sid) = sessprep::prep_server(state, &mut r2).unwrap_or_else(|e| panic!("harness: server prefix failed: {}", e));
                        (rig.enc, sid)
                    } else {
                        let rig = sessprep::prep_client(state, &mut r2).unwrap_or_else(|e| panic!("harness: client prefix failed: {}", e));
                        (rig.enc, sessprep::CLIENT_STREAM_ID)
                    };
                    let cs = enc.chunk_size;
                    let gen = match origin_i {
                        0 => 2, // valid protocol commands (arbitrary arguments)
                        1 => 5, // valid foreign stream
                        2 => 4, // mutated
                        _ => 3, // hostile chunks
                    };
                    let gen = if origin_i == 0 && rng.chance(1, 60) { 6 } else { gen }; // > 1024 tiny valid messages
                    let gen = if origin_i == 0 && rng.chance(1, 8) { 8 } else { gen }; // 10-200 tiny valid messages under a small window
                    let gen = if origin_i == 0 && !server && rng.chance(1, 4) { 9 } else { gen }; // workflow traffic for a client
                    let gen = if origin_i == 0 && server && rng.chance(1, 4) { 10 } else { gen }; // workflow traffic for a server
                    let gen = if origin_i == 0 && rng.chance(1, 300) { 7 } else { gen }; // one message in > 65,536 chunks
                    let mut b = c03::gen_stream_for_c15(gen, rng, &mut enc, hint);
                    if origin_i == 0 && rng.coin() {
                        b.extend(c03::gen_stream_for_c15(1, rng, &mut enc, hint));
                    }
                    (b, cs)
                };
                let log = chunk_log_of(&bytes, chunk_size);
                let mut make = || -> Box<dyn Target> {
                    let mut r2 = Rng::new(prep_seed);
                    if server {
                        let (mut rig, _) = sessprep::prep_server(state, &mut r2).unwrap_or_else(|e| panic!("harness: server prefix failed: {}", e));
                        rig.clock_step = 0; // frozen clock: two runs of the same history are comparable
                        Box::new(ServerTarget { rig })
                    } else {
                        let mut rig = sessprep::prep_client(state, &mut r2).unwrap_or_else(|e| panic!("harness: client prefix failed: {}", e));
                        rig.clock_step = 0;
                        Box::new(ClientTarget { rig })
                    }
                };
                let tname = if server { format!("ServerSession[{}]", SERVER_STATES[state]) } else { format!("ClientSession[{}]", CLIENT_STATES[state]) };
                run_stream(&mut make, &bytes, &log, origin, &tname, rng, out, nparts);
                out.count(if server { "server_streams" } else { "client_streams" }, 1);
                out.shape(mix(mix(target, origin_i), mix(state as u64, mix(log.len() as u64 % 32, bytes.len() as u64 % 64))));
                out.sample(|| json!({"target": tname, "origin": origin, "stream_len": bytes.len(), "chunks": log.len(), "head": hex_short(&bytes, 80)}));
            }
        }
    }
    fn rule(&self) -> String {
        "cases 0-2: a valid stream of more than 16 MiB (17 messages of 1 MiB and a ping) in one call versus 64 KiB pieces, for each target kind. Otherwise: targets {bare ChunkDeserializer (chunk sizes honoured as the sessions do), ServerSession and ClientSession each in a random one of 10 state classes reached by a valid prefix, clock frozen} x stream origins {library-serializer output / valid protocol command streams, foreign-conformant streams, mutated-invalid (bit flips, truncation, inserted/deleted/duplicated bytes), chunk-level hostile headers}. The byte-by-byte run records, per byte offset, what the call delivering that byte returned and the offset/kind of the first error. Every other partition (whole, per chunk, 3 (thorough 8) with 1-6 cuts placed inside chunk headers, 3 (8) random) is checked call by call: a call covering offsets [s,e) must return exactly the reference outputs for s..e (events/messages in order, decoded responses in order, acknowledgements excluded), and an Err of the same kind exactly in the call containing the reference's failing offset. distinct = (target, origin, state, chunk-count class, length class).".to_string()
    }
    fn assumptions(&self) -> Vec<String> {
        vec![
            "'agrees on everything delivered before it' is read literally: the failing call returns Err and delivers none of the results accumulated earlier in that call (DESIGN section 5)".to_string(),
            "Acknowledgement packets are excluded: their placement and value are defined per input call (C17)".to_string(),
            "error kinds are compared by variant names, not by embedded values".to_string(),
        ]
    }
    fn required_counters(&self, _tier: Tier) -> Vec<String> {
        let mut v = vec![
            "streams_partition_independent".to_string(),
            "streams_with_error".into(),
            "streams_without_error".into(),
            "server_streams".into(),
            "client_streams".into(),
            "split_at_chunk_boundary".into(),
        ];
        for f in 0..4 {
            v.push(format!("split_in_payload_of_fmt{}", f));
        }
        for f in 0..3 {
            v.push(format!("split_in_timestamp_of_fmt{}", f));
        }
        for f in 0..2 {
            v.push(format!("split_in_length_of_fmt{}", f));
            v.push(format!("split_in_type-id_of_fmt{}", f));
        }
        v.push("split_in_stream-id_of_fmt0".into());
        v.push("split_in_csid_of_fmt0".into());
        v.push("split_in_extended-timestamp_of_fmt0".into());
        v.push("split_in_extended-timestamp_of_fmt3".into());
        v
    }
}

fn c03_mutate(rng: &mut Rng, b: Vec<u8>) -> Vec<u8> {
    c03::mutate_for_c15(rng, b)
}
