//! rmlv: runtime monitors for KallDrexx/rust-media-libs.  See /verif/DESIGN.md.

mod adapt;
mod alloc;
mod checks;
mod fw;
mod model;
mod refs;
mod rng;
mod sup;

#[global_allocator]
static GLOBAL: alloc::Counting = alloc::Counting;

use fw::Tier;

fn usage() -> ! {
    eprintln!("usage: rmlv run <ID> [--tier quick|thorough] [--seed N] [--case K] [--verbose] [--no-evidence]");
    eprintln!("       rmlv worker <ID> --tier T --seed N --shard I --nshards N --start K [--case K] [--samples N]");
    eprintln!("       rmlv selftest");
    eprintln!("       rmlv list");
    std::process::exit(2);
}

fn main() {
    let args: Vec<String> = std::env::args().collect();
    if args.len() < 2 {
        usage();
    }
    let mut tier = std::env::var("VERIF_TIER").ok().and_then(|t| Tier::parse(&t)).unwrap_or(Tier::Quick);
    let mut seed: u64 = std::env::var("VERIF_SEED").ok().and_then(|s| s.trim().parse::<i64>().ok()).map(|x| x as u64).unwrap_or(1);
    let mut case: Option<u64> = None;
    let mut verbose = false;
    let mut write_evidence = true;
    let mut shard = 0u64;
    let mut nshards = 1u64;
    let mut start = 0u64;
    let mut samples = 0usize;
    let mut i = 3;
    while i < args.len() {
        let a = args[i].as_str();
        let val = |i: usize| -> &str {
            if i + 1 >= args.len() {
                usage();
            }
            args[i + 1].as_str()
        };
        match a {
            "--tier" => {
                tier = Tier::parse(val(i)).unwrap_or_else(|| usage());
                i += 1;
            }
            "--seed" => {
                seed = val(i).parse::<i64>().map(|x| x as u64).unwrap_or_else(|_| usage());
                i += 1;
            }
            "--case" => {
                case = Some(val(i).parse().unwrap_or_else(|_| usage()));
                i += 1;
            }
            "--shard" => {
                shard = val(i).parse().unwrap_or_else(|_| usage());
                i += 1;
            }
            "--nshards" => {
                nshards = val(i).parse().unwrap_or_else(|_| usage());
                i += 1;
            }
            "--start" => {
                start = val(i).parse().unwrap_or_else(|_| usage());
                i += 1;
            }
            "--samples" => {
                samples = val(i).parse().unwrap_or_else(|_| usage());
                i += 1;
            }
            "--verbose" => verbose = true,
            "--no-evidence" => write_evidence = false,
            _ => usage(),
        }
        i += 1;
    }
    match args[1].as_str() {
        "list" => {
            for c in checks::all() {
                println!("{}", c.id());
            }
        }
        "selftest" => {
            let mut bad = 0;
            for (name, r) in refs::selftest_all() {
                match r {
                    Ok(()) => println!("selftest {}: ok", name),
                    Err(e) => {
                        println!("selftest {}: FAILED: {}", name, e);
                        bad += 1;
                    }
                }
            }
            std::process::exit(if bad == 0 { 0 } else { 3 });
        }
        "inproc" => {
            // Run cases of one check inside this process (no worker processes, no CPU watchdog):
            // the mode used under Miri, which cannot spawn processes.  `--start K --samples N`
            // selects cases K..K+N.  Prints one line per violation and a summary; exit 1 on violation.
            if args.len() < 3 {
                usage();
            }
            let check = match checks::get(&args[2]) {
                Some(c) => c,
                None => std::process::exit(2),
            };
            fw::install_panic_hook();
            let mut out = fw::Out::default();
            out.want_samples = 0;
            let n = if samples == 0 { 50 } else { samples as u64 };
            let mut violations = 0u64;
            for k in start..start + n {
                let mut rng = rng::Rng::for_case(seed, check.id(), k);
                let t0 = std::time::Instant::now();
                let r = fw::guarded(|| check.run_case(tier, k, &mut rng, &mut out));
                if let Ok(ms) = std::env::var("RMLV_SLOW_MS") {
                    let ms: u128 = ms.parse().unwrap_or(100);
                    if t0.elapsed().as_millis() >= ms {
                        println!("SLOW case={} ms={}", k, t0.elapsed().as_millis());
                    }
                }
                if let Err((loc, msg)) = r {
                    println!("VIOLATION property={} inproc case={} escaped panic at {}: {}", check.id(), k, loc, msg);
                    violations += 1;
                }
                for v in out.violations.drain(..) {
                    println!("VIOLATION property={} inproc case={} signature={} {}", check.id(), k, v.sig, v.detail.to_string().chars().take(400).collect::<String>());
                    violations += 1;
                }
            }
            println!("INPROC property={} cases={}..{} evaluations={} violations={} calls_monitored={}", check.id(), start, start + n, out.evals, violations, out.counters.get("calls_monitored").copied().unwrap_or(0));
            std::process::exit(if violations == 0 { 0 } else { 1 });
        }
        "run" => {
            if args.len() < 3 {
                usage();
            }
            let check = match checks::get(&args[2]) {
                Some(c) => c,
                None => {
                    eprintln!("unknown check {}", args[2]);
                    std::process::exit(2);
                }
            };
            let opts = sup::RunOpts {
                tier,
                seed,
                only_case: case,
                verbose,
                write_evidence: write_evidence && case.is_none(),
            };
            let code = sup::run(check.as_ref(), &opts);
            std::process::exit(code);
        }
        "worker" => {
            if args.len() < 3 {
                usage();
            }
            let check = match checks::get(&args[2]) {
                Some(c) => c,
                None => std::process::exit(2),
            };
            let code = fw::worker_main(
                check.as_ref(),
                fw::WorkerArgs {
                    tier,
                    seed,
                    shard,
                    nshards,
                    start,
                    only_case: case,
                    verbose,
                    samples,
                },
            );
            std::process::exit(code);
        }
        _ => usage(),
    }
}
