//! rmlv: runtime monitors for KallDrexx/rust-media-libs.  See /verif/DESIGN.md.

mod adapt;
mod alloc;
mod checks;
mod fw;
mod model;
mod refs;
mod rng;
mod sup;

#[global_allocator]
static GLOBAL: alloc::Counting = alloc::Counting;

use fw::Tier;

fn usage() -> ! {
    eprintln!("usage: rmlv run <ID> [--tier quick|thorough] [--seed N] [--case K] [--verbose] [--no-evidence]");
    eprintln!("       rmlv worker <ID> --tier T --seed N --shard I --nshards N --start K [--case K] [--samples N]");
    eprintln!("       rmlv selftest");
    eprintln!("       rmlv list");
    std::process::exit(2);
}

fn main() {
    let args: Vec<String> = std::env::args().collect();
    if args.len() < 2 {
        usage();
    }
    let mut tier = std::env::var("VERIF_TIER").ok().and_then(|t| Tier::parse(&t)).unwrap_or(Tier::Quick);
    let mut seed: u64 = std::env::var("VERIF_SEED").ok().and_then(|s| s.trim().parse::<i64>().ok()).map(|x| x as u64).unwrap_or(1);
    let mut case: Option<u64> = None;
    let mut verbose = false;
    let mut write_evidence = true;
    let mut shard = 0u64;
    let mut nshards = 1u64;
    let mut start = 0u64;
    let mut samples = 0usize;
    let mut i = 3;
    while i < args.len() {
        let a = args[i].as_str();
        let val = |i: usize| -> &str {
            if i + 1 >= args.len() {
                usage();
            }
            args[i + 1].as_str()
        };
        match a {
            "--tier" => {
                tier = Tier::parse(val(i)).unwrap_or_else(|| usage());
                i += 1;
            }
            "--seed" => {
                seed = val(i).parse::<i64>().map(|x| x as u64).unwrap_or_else(|_| usage());
                i += 1;
            }
            "--case" => {
                case = Some(val(i).parse().unwrap_or_else(|_| usage()));
                i += 1;
            }
            "--shard" => {
                shard = val(i).parse().unwrap_or_else(|_| usage());
                i += 1;
            }
            "--nshards" => {
                nshards = val(i).parse().unwrap_or_else(|_| usage());
                i += 1;
            }
            "--start" => {
                start = val(i).parse().unwrap_or_else(|_| usage());
                i += 1;
            }
            "--samples" => {
                samples = val(i).parse().unwrap_or_else(|_| usage());
                i += 1;
            }
            "--verbose" => verbose = true,
            "--no-evidence" => write_evidence = false,
            _ => usage(),
        }
        i += 1;
    }
    match args[1].as_str() {
        "list" => {
            for c in checks::all() {
                println!("{}", c.id());
            }
        }
        "selftest" => {
            let mut bad = 0;
            for (name, r) in refs::selftest_all() {
                match r {
                    Ok(()) => println!("selftest {}: ok", name),
                    Err(e) => {
                        println!("selftest {}: FAILED: {}", name, e);
                        bad += 1;
                    }
                }
            }
            std::process::exit(if bad == 0 { 0 } else { 3 });
        }
        "run" => {
            if args.len() < 3 {
                usage();
            }
            let check = match checks::get(&args[2]) {
                Some(c) => c,
                None => {
                    eprintln!("unknown check {}", args[2]);
                    std::process::exit(2);
                }
            };
            let opts = sup::RunOpts {
                tier,
                seed,
                only_case: case,
                verbose,
                write_evidence: write_evidence && case.is_none(),
            };
            let code = sup::run(check.as_ref(), &opts);
            std::process::exit(code);
        }
        "worker" => {
            if args.len() < 3 {
                usage();
            }
            let check = match checks::get(&args[2]) {
                Some(c) => c,
                None => std::process::exit(2),
            };
            let code = fw::worker_main(
                check.as_ref(),
                fw::WorkerArgs {
                    tier,
                    seed,
                    shard,
                    nshards,
                    start,
                    only_case: case,
                    verbose,
                    samples,
                },
            );
            std::process::exit(code);
        }
        _ => usage(),
    }
}
