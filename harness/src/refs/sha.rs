//! Independent SHA-256 (FIPS 180-4), HMAC (RFC 2104) and the Flash-Player-9 handshake digest /
//! signature rules (clean-room description, RTMPE.txt), plus an original-handshake peer.
//! Nothing here uses the `hmac`/`sha2` crates or any constant from the library.

const K: [u32; 64] = [
    0x428a2f98, 0x71374491, 0xb5c0fbcf, 0xe9b5dba5, 0x3956c25b, 0x59f111f1, 0x923f82a4, 0xab1c5ed5,
    0xd807aa98, 0x12835b01, 0x243185be, 0x550c7dc3, 0x72be5d74, 0x80deb1fe, 0x9bdc06a7, 0xc19bf174,
    0xe49b69c1, 0xefbe4786, 0x0fc19dc6, 0x240ca1cc, 0x2de92c6f, 0x4a7484aa, 0x5cb0a9dc, 0x76f988da,
    0x983e5152, 0xa831c66d, 0xb00327c8, 0xbf597fc7, 0xc6e00bf3, 0xd5a79147, 0x06ca6351, 0x14292967,
    0x27b70a85, 0x2e1b2138, 0x4d2c6dfc, 0x53380d13, 0x650a7354, 0x766a0abb, 0x81c2c92e, 0x92722c85,
    0xa2bfe8a1, 0xa81a664b, 0xc24b8b70, 0xc76c51a3, 0xd192e819, 0xd6990624, 0xf40e3585, 0x106aa070,
    0x19a4c116, 0x1e376c08, 0x2748774c, 0x34b0bcb5, 0x391c0cb3, 0x4ed8aa4a, 0x5b9cca4f, 0x682e6ff3,
    0x748f82ee, 0x78a5636f, 0x84c87814, 0x8cc70208, 0x90befffa, 0xa4506ceb, 0xbef9a3f7, 0xc67178f2,
];

pub fn sha256(data: &[u8]) -> [u8; 32] {
    let mut h: [u32; 8] = [
        0x6a09e667, 0xbb67ae85, 0x3c6ef372, 0xa54ff53a, 0x510e527f, 0x9b05688c, 0x1f83d9ab, 0x5be0cd19,
    ];
    let mut msg = data.to_vec();
    let bitlen = (data.len() as u64).wrapping_mul(8);
    msg.push(0x80);
    while msg.len() % 64 != 56 {
        msg.push(0);
    }
    msg.extend_from_slice(&bitlen.to_be_bytes());
    let mut w = [0u32; 64];
    for block in msg.chunks(64) {
        for i in 0..16 {
            w[i] = u32::from_be_bytes([block[4 * i], block[4 * i + 1], block[4 * i + 2], block[4 * i + 3]]);
        }
        for i in 16..64 {
            let s0 = w[i - 15].rotate_right(7) ^ w[i - 15].rotate_right(18) ^ (w[i - 15] >> 3);
            let s1 = w[i - 2].rotate_right(17) ^ w[i - 2].rotate_right(19) ^ (w[i - 2] >> 10);
            w[i] = w[i - 16].wrapping_add(s0).wrapping_add(w[i - 7]).wrapping_add(s1);
        }
        let (mut a, mut b, mut c, mut d, mut e, mut f, mut g, mut hh) =
            (h[0], h[1], h[2], h[3], h[4], h[5], h[6], h[7]);
        for i in 0..64 {
            let s1 = e.rotate_right(6) ^ e.rotate_right(11) ^ e.rotate_right(25);
            let ch = (e & f) ^ ((!e) & g);
            let t1 = hh.wrapping_add(s1).wrapping_add(ch).wrapping_add(K[i]).wrapping_add(w[i]);
            let s0 = a.rotate_right(2) ^ a.rotate_right(13) ^ a.rotate_right(22);
            let maj = (a & b) ^ (a & c) ^ (b & c);
            let t2 = s0.wrapping_add(maj);
            hh = g;
            g = f;
            f = e;
            e = d.wrapping_add(t1);
            d = c;
            c = b;
            b = a;
            a = t1.wrapping_add(t2);
        }
        h[0] = h[0].wrapping_add(a);
        h[1] = h[1].wrapping_add(b);
        h[2] = h[2].wrapping_add(c);
        h[3] = h[3].wrapping_add(d);
        h[4] = h[4].wrapping_add(e);
        h[5] = h[5].wrapping_add(f);
        h[6] = h[6].wrapping_add(g);
        h[7] = h[7].wrapping_add(hh);
    }
    let mut out = [0u8; 32];
    for i in 0..8 {
        out[4 * i..4 * i + 4].copy_from_slice(&h[i].to_be_bytes());
    }
    out
}

pub fn hmac_sha256(key: &[u8], data: &[u8]) -> [u8; 32] {
    let mut k = [0u8; 64];
    if key.len() > 64 {
        k[..32].copy_from_slice(&sha256(key));
    } else {
        k[..key.len()].copy_from_slice(key);
    }
    let mut inner = Vec::with_capacity(64 + data.len());
    for b in k.iter() {
        inner.push(b ^ 0x36);
    }
    inner.extend_from_slice(data);
    let ih = sha256(&inner);
    let mut outer = Vec::with_capacity(96);
    for b in k.iter() {
        outer.push(b ^ 0x5c);
    }
    outer.extend_from_slice(&ih);
    sha256(&outer)
}

// ---------------------------------------------------------------------------------------------
// FP9 handshake rules (from the clean-room description; constants spelled out independently)

pub const PACKET: usize = 1536;

/// "Genuine Adobe Flash Player 001" (30 bytes): key of a client's packet-1 digest
pub fn fp_key() -> Vec<u8> {
    b"Genuine Adobe Flash Player 001".to_vec()
}

/// "Genuine Adobe Flash Media Server 001" (36 bytes): key of a server's packet-1 digest
pub fn fms_key() -> Vec<u8> {
    b"Genuine Adobe Flash Media Server 001".to_vec()
}

/// the 32-byte suffix both full keys share
pub fn key_suffix() -> [u8; 32] {
    [
        0xF0, 0xEE, 0xC2, 0x4A, 0x80, 0x68, 0xBE, 0xE8, 0x2E, 0x00, 0xD0, 0xD1, 0x02, 0x9E, 0x7E, 0x57,
        0x6E, 0xEC, 0x5D, 0x2D, 0x29, 0x80, 0x6F, 0xAB, 0x93, 0xB8, 0xE6, 0x36, 0xCF, 0xEB, 0x31, 0xAE,
    ]
}

#[derive(Clone, Copy, PartialEq, Eq, Debug)]
pub enum Role {
    Client,
    Server,
}

#[derive(Clone, Copy, PartialEq, Eq, Debug)]
pub enum Scheme {
    /// digest offset derived from bytes 8..11, base 12
    At8,
    /// digest offset derived from bytes 772..775, base 776
    At772,
}

pub fn digest_offset(p1: &[u8], scheme: Scheme) -> usize {
    match scheme {
        Scheme::At8 => (p1[8] as usize + p1[9] as usize + p1[10] as usize + p1[11] as usize) % 728 + 12,
        Scheme::At772 => {
            (p1[772] as usize + p1[773] as usize + p1[774] as usize + p1[775] as usize) % 728 + 776
        }
    }
}

/// HMAC over the packet without the 32 digest bytes at `off`
pub fn p1_digest(p1: &[u8], off: usize, key: &[u8]) -> [u8; 32] {
    let mut msg = Vec::with_capacity(PACKET - 32);
    msg.extend_from_slice(&p1[..off]);
    msg.extend_from_slice(&p1[off + 32..]);
    hmac_sha256(key, &msg)
}

/// Which scheme (if any) carries a valid digest under `key`; returns (scheme, offset, digest).
pub fn find_digest(p1: &[u8], key: &[u8]) -> Vec<(Scheme, usize, [u8; 32])> {
    let mut out = Vec::new();
    for scheme in [Scheme::At8, Scheme::At772] {
        let off = digest_offset(p1, scheme);
        let d = p1_digest(p1, off, key);
        if d[..] == p1[off..off + 32] {
            out.push((scheme, off, d));
        }
    }
    out
}

pub fn role_p1_key(role: Role) -> Vec<u8> {
    match role {
        Role::Client => fp_key(),
        Role::Server => fms_key(),
    }
}

pub fn role_full_key(role: Role) -> Vec<u8> {
    let mut k = role_p1_key(role);
    k.extend_from_slice(&key_suffix());
    k
}

/// Expected signature (last 32 bytes) of a packet 2 sent by `sender` in answer to a packet 1
/// whose digest was `peer_digest`.
pub fn p2_signature(sender: Role, peer_digest: &[u8; 32], p2: &[u8]) -> [u8; 32] {
    let k1 = hmac_sha256(&role_full_key(sender), peer_digest);
    hmac_sha256(&k1, &p2[..PACKET - 32])
}

/// Build a digest-bearing packet 1 as `role` would, from 1536 bytes of filler, with the digest
/// placed by `scheme`.  Selector bytes are taken from the filler as they are.
pub fn make_p1(role: Role, scheme: Scheme, filler: &[u8]) -> Vec<u8> {
    let mut p = filler.to_vec();
    assert_eq!(p.len(), PACKET);
    p[0] = 0;
    p[1] = 0;
    p[2] = 0;
    p[3] = 0;
    // a non-zero version marks a digest-bearing handshake
    p[4] = 10;
    p[5] = 0;
    p[6] = 45;
    p[7] = 2;
    let off = digest_offset(&p, scheme);
    let d = p1_digest(&p, off, &role_p1_key(role));
    p[off..off + 32].copy_from_slice(&d);
    p
}

/// Set the four selector bytes of `scheme` so that their sum is `sum` (0..=1020).
pub fn set_selector(p: &mut [u8], scheme: Scheme, sum: usize) {
    let base = match scheme {
        Scheme::At8 => 8,
        Scheme::At772 => 772,
    };
    let mut rest = sum;
    for i in 0..4 {
        let v = rest.min(255);
        p[base + i] = v as u8;
        rest -= v;
    }
    assert_eq!(rest, 0);
}

pub fn selftest() -> Result<(), String> {
    fn hx(b: &[u8]) -> String {
        crate::rng::hex(b)
    }
    // FIPS 180-4 / NIST vectors
    let v = [
        (&b""[..], "e3b0c44298fc1c149afbf4c8996fb92427ae41e4649b934ca495991b7852b855"),
        (&b"abc"[..], "ba7816bf8f01cfea414140de5dae2223b00361a396177a9cb410ff61f20015ad"),
        (
            &b"abcdbcdecdefdefgefghfghighijhijkijkljklmklmnlmnomnopnopq"[..],
            "248d6a61d20638b8e5c026930c3e6039a33ce45964ff2167f6ecedd419db06c1",
        ),
    ];
    for (m, want) in v.iter() {
        if hx(&sha256(m)) != *want {
            return Err(format!("sha256 vector failed for {:?}", m));
        }
    }
    let million = vec![b'a'; 1_000_000];
    if hx(&sha256(&million)) != "cdc76e5c9914fb9281a1c7e284d73e67f1809a48a497200e046d39ccc7112cd0" {
        return Err("sha256 million-a vector failed".into());
    }
    // RFC 4231 test cases 1, 2, 3, 6 (key longer than block)
    let t1 = hmac_sha256(&[0x0b; 20], b"Hi There");
    if hx(&t1) != "b0344c61d8db38535ca8afceaf0bf12b881dc200c9833da726e9376c2e32cff7" {
        return Err("hmac rfc4231 case 1 failed".into());
    }
    let t2 = hmac_sha256(b"Jefe", b"what do ya want for nothing?");
    if hx(&t2) != "5bdcc146bf60754e6a042426089575c75a003f089d2739839dec58b964ec3843" {
        return Err("hmac rfc4231 case 2 failed".into());
    }
    let t3 = hmac_sha256(&[0xaa; 20], &[0xdd; 50]);
    if hx(&t3) != "773ea91e36800e46854db8ebd09181a72959098b3ef8c122d9635514ced565fe" {
        return Err("hmac rfc4231 case 3 failed".into());
    }
    let t6 = hmac_sha256(
        &[0xaa; 131],
        b"Test Using Larger Than Block-Size Key - Hash Key First",
    );
    if hx(&t6) != "60e431591ee0b67f0d8a26aacbf5b77f8e0bc6213728c5140546040f0ee37f54" {
        return Err("hmac rfc4231 case 6 failed".into());
    }
    if fp_key().len() != 30 || fms_key().len() != 36 {
        return Err("key constant lengths".into());
    }
    // make_p1 / find_digest agree
    let mut filler = vec![0u8; PACKET];
    for (i, b) in filler.iter_mut().enumerate() {
        *b = (i * 7 + 3) as u8;
    }
    for role in [Role::Client, Role::Server] {
        for scheme in [Scheme::At8, Scheme::At772] {
            let p = make_p1(role, scheme, &filler);
            let f = find_digest(&p, &role_p1_key(role));
            if !f.iter().any(|x| x.0 == scheme) {
                return Err("make_p1/find_digest disagree".into());
            }
        }
    }
    Ok(())
}
