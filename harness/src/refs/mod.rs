pub mod amf;
pub mod chunk;
pub mod msg;
pub mod sha;

pub fn selftest_all() -> Vec<(&'static str, Result<(), String>)> {
    vec![
        ("refsha", sha::selftest()),
        ("refamf", amf::selftest()),
        ("refchunk", chunk::selftest()),
        ("refmsg", msg::selftest()),
    ]
}
