//! Independent AMF0 encoder / strict decoder written from the AMF0 specification (section 2),
//! plus the value generator shared by C04/C12/C13 and the conversions to the library's type.

use crate::rng::Rng;
use rml_amf0::Amf0Value;
use serde_json::{json, Value};
use std::collections::HashMap;

#[derive(Clone, Debug, PartialEq)]
pub enum V {
    /// IEEE-754 bit pattern (so NaN payloads and signed zero compare exactly)
    Num(u64),
    Bool(bool),
    Str(String),
    /// properties in encoding order; names unique
    Obj(Vec<(String, V)>),
    Arr(Vec<V>),
    Null,
    Undef,
}

pub fn num(x: f64) -> V {
    V::Num(x.to_bits())
}

pub fn s(x: &str) -> V {
    V::Str(x.to_string())
}

pub fn obj(props: Vec<(&str, V)>) -> V {
    V::Obj(props.into_iter().map(|(k, v)| (k.to_string(), v)).collect())
}

impl V {
    pub fn to_lib(&self) -> Amf0Value {
        match self {
            V::Num(b) => Amf0Value::Number(f64::from_bits(*b)),
            V::Bool(b) => Amf0Value::Boolean(*b),
            V::Str(s) => Amf0Value::Utf8String(s.clone()),
            V::Obj(p) => {
                let mut m = HashMap::new();
                for (k, v) in p {
                    m.insert(k.clone(), v.to_lib());
                }
                Amf0Value::Object(m)
            }
            V::Arr(a) => Amf0Value::StrictArray(a.iter().map(|x| x.to_lib()).collect()),
            V::Null => Amf0Value::Null,
            V::Undef => Amf0Value::Undefined,
        }
    }

    /// objects come back with properties sorted by name (canonical form)
    pub fn from_lib(v: &Amf0Value) -> V {
        match v {
            Amf0Value::Number(x) => V::Num(x.to_bits()),
            Amf0Value::Boolean(b) => V::Bool(*b),
            Amf0Value::Utf8String(s) => V::Str(s.clone()),
            Amf0Value::Object(m) => {
                let mut p: Vec<(String, V)> = m.iter().map(|(k, v)| (k.clone(), V::from_lib(v))).collect();
                p.sort_by(|a, b| a.0.cmp(&b.0));
                V::Obj(p)
            }
            Amf0Value::StrictArray(a) => V::Arr(a.iter().map(V::from_lib).collect()),
            Amf0Value::Null => V::Null,
            Amf0Value::Undefined => V::Undef,
        }
    }

    /// canonical form: object properties sorted by name, recursively
    pub fn canon(&self) -> V {
        match self {
            V::Obj(p) => {
                let mut q: Vec<(String, V)> = p.iter().map(|(k, v)| (k.clone(), v.canon())).collect();
                q.sort_by(|a, b| a.0.cmp(&b.0));
                V::Obj(q)
            }
            V::Arr(a) => V::Arr(a.iter().map(|x| x.canon()).collect()),
            x => x.clone(),
        }
    }

    pub fn depth(&self) -> usize {
        match self {
            V::Obj(p) => 1 + p.iter().map(|x| x.1.depth()).max().unwrap_or(0),
            V::Arr(a) => 1 + a.iter().map(|x| x.depth()).max().unwrap_or(0),
            _ => 0,
        }
    }

    pub fn max_props(&self) -> usize {
        match self {
            V::Obj(p) => p.len().max(p.iter().map(|x| x.1.max_props()).max().unwrap_or(0)),
            V::Arr(a) => a.iter().map(|x| x.max_props()).max().unwrap_or(0),
            _ => 0,
        }
    }

    pub fn to_json(&self) -> Value {
        self.to_json_depth(0)
    }

    /// JSON rendering for witnesses; nesting beyond 10 levels is summarised (JSON parsers,
    /// including the supervisor's, limit recursion depth)
    fn to_json_depth(&self, d: usize) -> Value {
        if d >= 10 {
            if let V::Obj(_) | V::Arr(_) = self {
                return json!({"container_nested_further_levels": self.depth()});
            }
        }
        match self {
            V::Num(b) => json!({"num_bits": format!("{:016x}", b), "approx": format!("{:?}", f64::from_bits(*b))}),
            V::Bool(b) => json!(b),
            V::Str(s) => {
                if s.len() > 80 {
                    json!({"str_len": s.len(), "head": s.chars().take(20).collect::<String>()})
                } else {
                    json!({ "str": s })
                }
            }
            V::Obj(p) => {
                let items: Vec<Value> = p
                    .iter()
                    .take(40)
                    .map(|(k, v)| {
                        let k = if k.len() > 40 {
                            format!("<name of {} bytes>", k.len())
                        } else {
                            k.clone()
                        };
                        json!([k, v.to_json_depth(d + 1)])
                    })
                    .collect();
                if p.len() > 40 {
                    json!({ "obj_props": p.len(), "first_40": items })
                } else {
                    json!({ "obj": items })
                }
            }
            V::Arr(a) => {
                if a.len() > 12 {
                    json!({"arr_len": a.len(), "head": a.iter().take(4).map(|x| x.to_json_depth(d + 1)).collect::<Vec<_>>()})
                } else {
                    json!({"arr": a.iter().map(|x| x.to_json_depth(d + 1)).collect::<Vec<_>>()})
                }
            }
            V::Null => json!("null"),
            V::Undef => json!("undefined"),
        }
    }
}

pub fn seq_to_lib(vs: &[V]) -> Vec<Amf0Value> {
    vs.iter().map(|v| v.to_lib()).collect()
}

pub fn seq_from_lib(vs: &[Amf0Value]) -> Vec<V> {
    vs.iter().map(V::from_lib).collect()
}

pub fn seq_canon(vs: &[V]) -> Vec<V> {
    vs.iter().map(|v| v.canon()).collect()
}

pub fn seq_json(vs: &[V]) -> Value {
    if vs.len() > 40 {
        return json!({"values": vs.len(), "first_40": vs.iter().take(40).map(|v| v.to_json()).collect::<Vec<_>>(), "last": vs.last().map(|v| v.to_json())});
    }
    Value::Array(vs.iter().map(|v| v.to_json()).collect())
}

/// Is the value expressible in AMF0 at all (strings and names <= 65535 bytes, names non-empty,
/// array length < 2^32)?
pub fn expressible(v: &V) -> bool {
    match v {
        V::Str(s) => s.len() <= 65535,
        V::Obj(p) => p.iter().all(|(k, v)| !k.is_empty() && k.len() <= 65535 && expressible(v)),
        V::Arr(a) => a.iter().all(expressible),
        _ => true,
    }
}

// ---------------------------------------------------------------------------------------------
// encoder

/// Free choices the specification leaves to an encoder.
#[derive(Clone, Copy, Debug)]
pub struct EncPolicy {
    /// encode objects as ECMA arrays with this probability (per 256)
    pub ecma_per_256: u32,
    /// encode `true` as an arbitrary non-zero byte
    pub any_true_byte: bool,
}

pub const CANONICAL: EncPolicy = EncPolicy {
    ecma_per_256: 0,
    any_true_byte: false,
};

pub struct EncStats {
    pub ecma_arrays: u32,
    pub odd_true_bytes: u32,
    pub ecma_counts: Vec<u32>,
}

pub fn encode_value(v: &V, out: &mut Vec<u8>, pol: &EncPolicy, rng: &mut Option<&mut Rng>, st: &mut EncStats) {
    match v {
        V::Num(b) => {
            out.push(0x00);
            out.extend_from_slice(&b.to_be_bytes());
        }
        V::Bool(b) => {
            out.push(0x01);
            if *b {
                let mut byte = 1u8;
                if pol.any_true_byte {
                    if let Some(r) = rng.as_mut() {
                        byte = r.range(1, 255) as u8;
                        if byte != 1 {
                            st.odd_true_bytes += 1;
                        }
                    }
                }
                out.push(byte);
            } else {
                out.push(0);
            }
        }
        V::Str(s) => {
            out.push(0x02);
            out.extend_from_slice(&(s.len() as u16).to_be_bytes());
            out.extend_from_slice(s.as_bytes());
        }
        V::Obj(p) => {
            let mut as_ecma = false;
            if pol.ecma_per_256 > 0 {
                if let Some(r) = rng.as_mut() {
                    as_ecma = r.below(256) < pol.ecma_per_256 as u64;
                }
            }
            if as_ecma {
                out.push(0x08);
                let count: u32 = match rng.as_mut() {
                    Some(r) => match r.below(5) {
                        0 => 0,
                        1 => p.len() as u32,
                        2 => 0xFFFF_FFFF,
                        3 => p.len() as u32 + 1,
                        _ => r.u32(),
                    },
                    None => p.len() as u32,
                };
                st.ecma_arrays += 1;
                st.ecma_counts.push(count);
                out.extend_from_slice(&count.to_be_bytes());
            } else {
                out.push(0x03);
            }
            for (k, v) in p {
                out.extend_from_slice(&(k.len() as u16).to_be_bytes());
                out.extend_from_slice(k.as_bytes());
                encode_value(v, out, pol, rng, st);
            }
            out.extend_from_slice(&[0x00, 0x00, 0x09]);
        }
        V::Arr(a) => {
            out.push(0x0A);
            out.extend_from_slice(&(a.len() as u32).to_be_bytes());
            for x in a {
                encode_value(x, out, pol, rng, st);
            }
        }
        V::Null => out.push(0x05),
        V::Undef => out.push(0x06),
    }
}

/// Canonical specification encoding (objects as objects, `true` as 01).  Panics on inexpressible
/// values: callers test `expressible` first.
pub fn encode(vs: &[V]) -> Vec<u8> {
    let mut out = Vec::new();
    let mut st = EncStats {
        ecma_arrays: 0,
        odd_true_bytes: 0,
        ecma_counts: vec![],
    };
    for v in vs {
        assert!(expressible(v));
        encode_value(v, &mut out, &CANONICAL, &mut None, &mut st);
    }
    out
}

pub fn encode_variant(vs: &[V], pol: &EncPolicy, rng: &mut Rng) -> (Vec<u8>, EncStats) {
    let mut out = Vec::new();
    let mut st = EncStats {
        ecma_arrays: 0,
        odd_true_bytes: 0,
        ecma_counts: vec![],
    };
    let mut r = Some(rng);
    for v in vs {
        assert!(expressible(v));
        encode_value(v, &mut out, pol, &mut r, &mut st);
    }
    (out, st)
}

/// shuffle property order recursively (another free choice of an encoder)
pub fn shuffle_props(v: &V, rng: &mut Rng) -> V {
    match v {
        V::Obj(p) => {
            let mut q: Vec<(String, V)> = p.iter().map(|(k, v)| (k.clone(), shuffle_props(v, rng))).collect();
            rng.shuffle(&mut q);
            V::Obj(q)
        }
        V::Arr(a) => V::Arr(a.iter().map(|x| shuffle_props(x, rng)).collect()),
        x => x.clone(),
    }
}

// ---------------------------------------------------------------------------------------------
// strict decoder

struct Cur<'a> {
    b: &'a [u8],
    p: usize,
}

impl<'a> Cur<'a> {
    fn take(&mut self, n: usize) -> Result<&'a [u8], String> {
        if self.b.len() - self.p < n {
            return Err(format!("truncated at offset {} (need {} bytes)", self.p, n));
        }
        let s = &self.b[self.p..self.p + n];
        self.p += n;
        Ok(s)
    }
    fn u8(&mut self) -> Result<u8, String> {
        Ok(self.take(1)?[0])
    }
    fn u16(&mut self) -> Result<u16, String> {
        let s = self.take(2)?;
        Ok(u16::from_be_bytes([s[0], s[1]]))
    }
    fn u32(&mut self) -> Result<u32, String> {
        let s = self.take(4)?;
        Ok(u32::from_be_bytes([s[0], s[1], s[2], s[3]]))
    }
}

fn dec_value(c: &mut Cur, depth: usize) -> Result<V, String> {
    if depth > 4000 {
        return Err("reference decoder depth limit".into());
    }
    let at = c.p;
    let m = c.u8()?;
    match m {
        0x00 => {
            let s = c.take(8)?;
            let mut a = [0u8; 8];
            a.copy_from_slice(s);
            Ok(V::Num(u64::from_be_bytes(a)))
        }
        0x01 => Ok(V::Bool(c.u8()? != 0)),
        0x02 => {
            let n = c.u16()? as usize;
            let s = c.take(n)?;
            match std::str::from_utf8(s) {
                Ok(x) => Ok(V::Str(x.to_string())),
                Err(_) => Err(format!("invalid utf-8 in string at {}", at)),
            }
        }
        0x03 | 0x08 => {
            if m == 0x08 {
                let _count = c.u32()?;
            }
            let mut props: Vec<(String, V)> = Vec::new();
            loop {
                let n = c.u16()? as usize;
                if n == 0 {
                    let e = c.u8()?;
                    if e != 0x09 {
                        return Err(format!("empty property name not followed by object-end at {}", c.p - 1));
                    }
                    break;
                }
                let name = c.take(n)?;
                let name = match std::str::from_utf8(name) {
                    Ok(x) => x.to_string(),
                    Err(_) => return Err(format!("invalid utf-8 in property name at {}", c.p - n)),
                };
                let v = dec_value(c, depth + 1)?;
                if let Some(e) = props.iter_mut().find(|e| e.0 == name) {
                    e.1 = v; // last one wins (not generated by the harness)
                } else {
                    props.push((name, v));
                }
            }
            Ok(V::Obj(props))
        }
        0x05 => Ok(V::Null),
        0x06 => Ok(V::Undef),
        0x0A => {
            let n = c.u32()?;
            let mut a = Vec::new();
            for _ in 0..n {
                a.push(dec_value(c, depth + 1)?);
            }
            Ok(V::Arr(a))
        }
        x => Err(format!("marker {:#04x} at offset {} is not one of the supported types", x, at)),
    }
}

/// Strict: every byte consumed, every count honoured, only the supported markers.
pub fn decode_strict(bytes: &[u8]) -> Result<Vec<V>, String> {
    let mut c = Cur { b: bytes, p: 0 };
    let mut out = Vec::new();
    while c.p < bytes.len() {
        out.push(dec_value(&mut c, 0)?);
    }
    Ok(out)
}

// ---------------------------------------------------------------------------------------------
// prefix relation for truncated encodings

/// `d` is what was decoded from a truncated encoding of `o`.  Both in canonical form.
pub fn value_prefix(d: &V, o: &V) -> bool {
    match (d, o) {
        (V::Arr(a), V::Arr(b)) => seq_prefix(a, b),
        (V::Obj(p), V::Obj(q)) => p.iter().all(|(k, v)| match q.iter().find(|e| &e.0 == k) {
            Some(e) => value_prefix(v, &e.1),
            None => false,
        }),
        (x, y) => x == y,
    }
}

pub fn seq_prefix(d: &[V], o: &[V]) -> bool {
    if d.len() > o.len() {
        return false;
    }
    if d.is_empty() {
        return true;
    }
    let n = d.len();
    for i in 0..n - 1 {
        if d[i] != o[i] {
            return false;
        }
    }
    value_prefix(&d[n - 1], &o[n - 1])
}

// ---------------------------------------------------------------------------------------------
// generator

pub struct GenCfg {
    pub max_depth: usize,
    pub max_children: usize,
    /// allow names/strings that AMF0 cannot express (empty name, > 65535 bytes)
    pub inexpressible: bool,
    /// allow long strings (around 65535) at all
    pub long_strings: bool,
}

const NUM_BITS: [u64; 16] = [
    0x0000000000000000, // +0
    0x8000000000000000, // -0
    0x3FF0000000000000, // 1
    0xBFF0000000000000, // -1
    0x7FF0000000000000, // +inf
    0xFFF0000000000000, // -inf
    0x7FF8000000000000, // quiet NaN
    0x7FF0000000000001, // signalling NaN
    0xFFF8DEADBEEF0001, // negative NaN with payload
    0x0000000000000001, // smallest subnormal
    0x000FFFFFFFFFFFFF, // largest subnormal
    0x7FEFFFFFFFFFFFFF, // max finite
    0x41EFFFFFFFE00000, // 4294967295
    0x41F0000000000000, // 4294967296
    0xC000000000000000, // -2
    0x4340000000000000, // 2^53
];

pub fn gen_string(rng: &mut Rng, cfg: &GenCfg, name: bool) -> String {
    let len_class = rng.below(if cfg.long_strings { 40 } else { 30 });
    let len: usize = match len_class {
        0 => {
            if name && !cfg.inexpressible {
                1
            } else {
                0
            }
        }
        1..=20 => rng.usize(1, 12),
        21..=23 => rng.usize(13, 300),
        // lengths whose u16 prefix has "interesting" bytes (high byte 1, 2, 3, 4; all ones)
        24..=26 => *rng.pick(&[255usize, 256, 257, 511, 512, 513, 600, 767, 768, 769, 1023, 1024, 1025]),
        27..=29 => rng.usize(13, 1100),
        30..=32 => 65535,
        33 => *rng.pick(&[32767usize, 32768, 32769, 49152, 65280]),
        34 => 65534,
        35 => {
            if cfg.inexpressible {
                65536
            } else {
                65533
            }
        }
        36 => {
            if cfg.inexpressible {
                70000
            } else {
                40000
            }
        }
        37 => {
            if cfg.inexpressible {
                65538
            } else {
                32768
            }
        }
        _ => rng.usize(300, 5000),
    };
    // build a string of exactly `len` bytes from 1-4 byte UTF-8 sequences and embedded NULs
    let mut s = String::with_capacity(len + 4);
    let ascii_only = rng.chance(1, 2);
    while s.len() < len {
        let rest = len - s.len();
        if rest >= 3 && rng.chance(1, 200) {
            // the byte sequence of an object end inside a string (00 00 09)
            s.push_str("\0\0\t");
            continue;
        }
        let c: char = if ascii_only || rest < 2 {
            match rng.below(40) {
                0 => '\0',
                1 => '/',
                _ => (b'a' + rng.below(26) as u8) as char,
            }
        } else {
            match rng.below(4) {
                0 => (b'A' + rng.below(26) as u8) as char,
                1 => char::from_u32(0x80 + rng.below(0x700) as u32).unwrap_or('é'),
                2 if rest >= 3 => char::from_u32(0x4E00 + rng.below(0x1000) as u32).unwrap_or('中'),
                3 if rest >= 4 => char::from_u32(0x1F300 + rng.below(0x200) as u32).unwrap_or('😀'),
                _ => 'z',
            }
        };
        if s.len() + c.len_utf8() <= len {
            s.push(c);
        }
    }
    s
}

pub fn gen_value(rng: &mut Rng, cfg: &GenCfg, depth: usize) -> V {
    let leaf_only = depth >= cfg.max_depth;
    let k = if leaf_only { rng.below(6) } else { rng.below(9) };
    match k {
        0 | 1 => {
            if rng.chance(1, 2) {
                V::Num(*rng.pick(&NUM_BITS))
            } else if rng.chance(1, 2) {
                V::Num(rng.next())
            } else {
                V::Num(((rng.below(100000) as f64) - 500.0).to_bits())
            }
        }
        2 => V::Bool(rng.coin()),
        3 => V::Str(gen_string(rng, cfg, false)),
        4 => V::Null,
        5 => V::Undef,
        6 | 7 => {
            let n = match rng.below(6) {
                0 => 0,
                1 => 1,
                _ => rng.usize(1, cfg.max_children),
            };
            if rng.chance(1, 80) {
                // many properties with short distinct names (counts around powers of two)
                let n = *rng.pick(&[255usize, 256, 257, 1024, 1025, 5000]);
                return V::Obj((0..n).map(|i| (format!("p{}", i), if i % 3 == 0 { V::Null } else { V::Num(i as u64) })).collect());
            }
            if rng.chance(1, 25) {
                // the shape Flash gives associative arrays: keys "0".."n-1" plus "length": n
                // (sometimes off by one), or "length" alone
                let n = rng.usize(0, cfg.max_children.max(1));
                let mut props: Vec<(String, V)> = (0..n).map(|i| (i.to_string(), if leaf_only { V::Null } else { gen_value(rng, cfg, depth + 1) })).collect();
                let l = match rng.below(6) {
                    0 => n as f64 + 1.0,
                    1 if n > 0 => n as f64 - 1.0,
                    _ => n as f64,
                };
                props.push(("length".to_string(), V::Num(l.to_bits())));
                return V::Obj(props);
            }
            let mut props: Vec<(String, V)> = Vec::new();
            for _ in 0..n {
                // names code may treat specially, now and then
                let name = if rng.chance(1, 15) {
                    rng.pick(&["length", "0", "1", "__proto__", "constructor", "toString", "name", "type", "code", "level", "description", "objectEncoding", "app", "data", "value", "onMetaData", "2000000", "4294967295", "18446744073709551615", "-1", "1e9", "00", "videocodecid", "audiocodecid", "duration", "width", "height", "framerate", "encoder"]).to_string()
                } else {
                    gen_string(rng, cfg, true)
                };
                if props.iter().any(|p| p.0 == name) {
                    continue;
                }
                let v = gen_value(rng, cfg, depth + 1);
                props.push((name, v));
            }
            // now and then a second property whose name differs from an existing one only in
            // letter case (or is its Unicode look-alike): names are byte strings
            if !props.is_empty() && rng.chance(1, 12) {
                let base = props[rng.usize(0, props.len() - 1)].0.clone();
                let variant: String = match rng.below(3) {
                    0 => base.to_uppercase(),
                    1 => base.to_lowercase(),
                    _ => base.chars().map(|c| if c == 'k' { '\u{212a}' } else if c.is_ascii_lowercase() { c.to_ascii_uppercase() } else { c.to_ascii_lowercase() }).collect(),
                };
                if !variant.is_empty() && variant.len() <= 65535 && !props.iter().any(|p| p.0 == variant) {
                    let v = gen_value(rng, cfg, depth + 1);
                    props.push((variant, v));
                }
            }
            V::Obj(props)
        }
        _ => {
            let n = match rng.below(8) {
                0 => 0,
                1 => 1,
                2 if depth + 1 >= cfg.max_depth => rng.usize(50, 300),
                _ => rng.usize(1, cfg.max_children),
            };
            if rng.chance(1, 60) {
                // element counts around powers of two and beyond 16 bits, with cheap elements
                let n = *rng.pick(&[255usize, 256, 257, 1023, 1024, 1025, 4095, 4096, 4097, 5000, 65535, 65536, 70_000]);
                let cheap = [V::Null, V::Undef, V::Bool(true), V::Num(0x3FF0000000000000)];
                return V::Arr((0..n).map(|i| cheap[(i + n) % 4].clone()).collect());
            }
            let mut elems: Vec<V> = (0..n).map(|_| gen_value(rng, cfg, depth + 1)).collect();
            // now and then an element that is its neighbour again, but for one bit of one number
            // inside (the sign of a zero, a NaN payload): equal under ==, not the same value
            if !elems.is_empty() && rng.chance(1, 10) {
                let at = rng.usize(0, elems.len() - 1);
                let mut twin = elems[at].clone();
                if !tweak_first_number(&mut twin, rng) {
                    twin = V::Arr(vec![V::Num(0x8000_0000_0000_0000)]);
                    elems.insert(at, V::Arr(vec![V::Num(0)]));
                }
                elems.insert(at + 1, twin);
            }
            V::Arr(elems)
        }
    }
}

/// flip the sign bit (or, for a NaN, one payload bit) of the first number found; numbers that are
/// not zero or NaN are first replaced by a zero in both... no: only the twin is changed
fn tweak_first_number(v: &mut V, rng: &mut Rng) -> bool {
    match v {
        V::Num(b) => {
            *b ^= if f64::from_bits(*b).is_nan() { 1 << rng.below(50) } else { 1 << 63 };
            true
        }
        V::Arr(a) => a.iter_mut().any(|x| tweak_first_number(x, rng)),
        V::Obj(p) => p.iter_mut().any(|x| tweak_first_number(&mut x.1, rng)),
        _ => false,
    }
}

pub fn gen_seq(rng: &mut Rng, cfg: &GenCfg) -> Vec<V> {
    let n = match rng.below(8) {
        0 => 0,
        1 | 2 => 1,
        _ => rng.usize(1, 6),
    };
    let mut total_long = 0;
    let mut out = Vec::new();
    for _ in 0..n {
        let v = gen_value(rng, cfg, 0);
        // keep total size bounded: at most a few long strings per sequence
        let sz = approx_size(&v);
        if sz > 60000 {
            total_long += 1;
            if total_long > 3 {
                out.push(V::Null);
                continue;
            }
        }
        out.push(v);
    }
    out
}

pub fn approx_size(v: &V) -> usize {
    match v {
        V::Num(_) => 9,
        V::Bool(_) => 2,
        V::Str(s) => 3 + s.len(),
        V::Obj(p) => 4 + p.iter().map(|(k, v)| 2 + k.len() + approx_size(v)).sum::<usize>(),
        V::Arr(a) => 5 + a.iter().map(approx_size).sum::<usize>(),
        _ => 1,
    }
}

/// A cheap structural hash (type multiset + depth + boundary classes) for shape signatures.
pub fn shape_hash(vs: &[V]) -> u64 {
    fn walk(v: &V, h: &mut u64, depth: u64) {
        let tag: u64 = match v {
            V::Num(b) => {
                let f = f64::from_bits(*b);
                if f.is_nan() {
                    10
                } else if f.is_infinite() {
                    11
                } else if *b == 0x8000000000000000 {
                    12
                } else if f == 0.0 {
                    13
                } else if f.is_subnormal() {
                    14
                } else {
                    15
                }
            }
            V::Bool(b) => 20 + *b as u64,
            V::Str(s) => 30 + len_class(s.len()),
            V::Obj(p) => {
                for (k, x) in p {
                    *h = crate::rng::mix(*h, 50 + len_class(k.len()));
                    walk(x, h, depth + 1);
                }
                40 + (p.len() as u64).min(9)
            }
            V::Arr(a) => {
                for x in a.iter().take(8) {
                    walk(x, h, depth + 1);
                }
                60 + (a.len() as u64).min(9)
            }
            V::Null => 70,
            V::Undef => 71,
        };
        *h = crate::rng::mix(*h, tag * 16 + depth.min(15));
    }
    fn len_class(n: usize) -> u64 {
        match n {
            0 => 0,
            1..=12 => 1,
            13..=300 => 2,
            301..=65533 => 3,
            65534 => 4,
            65535 => 5,
            65536 => 6,
            _ => 7,
        }
    }
    let mut h = 0x1234u64;
    for v in vs {
        walk(v, &mut h, 0);
    }
    crate::rng::mix(h, vs.len() as u64)
}

pub fn selftest() -> Result<(), String> {
    use crate::rng::hex;
    // worked examples from the AMF0 specification layout rules
    let v = vec![num(1.0)];
    if hex(&encode(&v)) != "003ff0000000000000" {
        return Err("number encoding".into());
    }
    let v = vec![V::Bool(true), V::Bool(false), V::Null, V::Undef];
    if hex(&encode(&v)) != "010101000506" {
        return Err("bool/null/undefined encoding".into());
    }
    let v = vec![s("hi")];
    if hex(&encode(&v)) != "0200026869" {
        return Err("string encoding".into());
    }
    let v = vec![obj(vec![("a", V::Null)])];
    if hex(&encode(&v)) != "0300016105000009" {
        return Err("object encoding".into());
    }
    let v = vec![V::Arr(vec![V::Null, V::Bool(true)])];
    if hex(&encode(&v)) != "0a00000002050101" {
        return Err("strict array encoding".into());
    }
    // encoder -> strict decoder round trip on generated values
    let mut rng = Rng::new(77);
    let cfg = GenCfg {
        max_depth: 4,
        max_children: 5,
        inexpressible: false,
        long_strings: true,
    };
    for _ in 0..300 {
        let vs = gen_seq(&mut rng, &cfg);
        let b = encode(&vs);
        let d = decode_strict(&b)?;
        if seq_canon(&d) != seq_canon(&vs) {
            return Err("reference round trip".into());
        }
        let pol = EncPolicy {
            ecma_per_256: 128,
            any_true_byte: true,
        };
        let (b2, _) = encode_variant(&vs, &pol, &mut rng);
        let d2 = decode_strict(&b2)?;
        if seq_canon(&d2) != seq_canon(&vs) {
            return Err("reference variant round trip".into());
        }
    }
    // ecma array decodes as object; unsupported markers rejected
    if decode_strict(&crate::rng::unhex("08000000050001610500000009").unwrap()).is_ok() {
        return Err("trailing garbage accepted".into());
    }
    let d = decode_strict(&crate::rng::unhex("080000000500016105000009").unwrap())?;
    if d != vec![obj(vec![("a", V::Null)])] {
        return Err("ecma array decode".into());
    }
    for m in [4u8, 7, 9, 11, 12, 13, 14, 15, 16, 17, 18, 255] {
        if decode_strict(&[m, 0, 0, 0, 0, 0, 0, 0, 0, 0, 0]).is_ok() {
            return Err(format!("marker {} accepted by reference decoder", m));
        }
    }
    // prefix relation
    let o = vec![num(1.0), V::Arr(vec![V::Null, V::Arr(vec![V::Bool(true), V::Null])])];
    let d1 = vec![num(1.0), V::Arr(vec![V::Null, V::Arr(vec![V::Bool(true)])])];
    let d2 = vec![num(1.0), V::Arr(vec![V::Null, V::Arr(vec![V::Null])])];
    if !seq_prefix(&d1, &o) || seq_prefix(&d2, &o) || !seq_prefix(&[], &o) || !seq_prefix(&o, &o) {
        return Err("prefix relation".into());
    }
    Ok(())
}

// ---------------------------------------------------------------------------------------------
// helpers shared by the AMF0 checks

/// class of the first difference between two canonical values (for violation signatures)
pub fn diff_class(got: &V, want: &V) -> String {
    match (got, want) {
        (V::Num(a), V::Num(b)) => {
            if a == b {
                "same".into()
            } else {
                "number-bits".into()
            }
        }
        (V::Bool(a), V::Bool(b)) => {
            if a == b {
                "same".into()
            } else {
                "boolean".into()
            }
        }
        (V::Str(a), V::Str(b)) => {
            if a == b {
                "same".into()
            } else if a.len() != b.len() {
                "string-length".into()
            } else {
                "string-bytes".into()
            }
        }
        (V::Null, V::Null) | (V::Undef, V::Undef) => "same".into(),
        (V::Arr(a), V::Arr(b)) => {
            if a.len() != b.len() {
                return "array-length".into();
            }
            for (x, y) in a.iter().zip(b.iter()) {
                let c = diff_class(x, y);
                if c != "same" {
                    return c;
                }
            }
            "same".into()
        }
        (V::Obj(a), V::Obj(b)) => {
            let ka: Vec<&String> = a.iter().map(|x| &x.0).collect();
            let kb: Vec<&String> = b.iter().map(|x| &x.0).collect();
            if ka != kb {
                return "object-property-names".into();
            }
            for (x, y) in a.iter().zip(b.iter()) {
                let c = diff_class(&x.1, &y.1);
                if c != "same" {
                    return c;
                }
            }
            "same".into()
        }
        _ => "value-type".into(),
    }
}

pub fn seq_diff_class(got: &[V], want: &[V]) -> String {
    if got.len() != want.len() {
        return "sequence-length".into();
    }
    for (x, y) in got.iter().zip(want.iter()) {
        let c = diff_class(x, y);
        if c != "same" {
            return c;
        }
    }
    "same".into()
}

/// Run the library decoder; returns canonical values and the number of bytes consumed.
/// A `Read` that hands the bytes out in short pieces (1, 2, 7, 3, 64, ... bytes per call), as a
/// socket or a buffered reader may: `deserialize` takes any `Read`, and what it returns must not
/// depend on how the reader delivers the bytes.
struct Choppy<'a> {
    data: &'a [u8],
    pos: usize,
    calls: usize,
}

impl<'a> std::io::Read for Choppy<'a> {
    fn read(&mut self, buf: &mut [u8]) -> std::io::Result<usize> {
        const STEPS: [usize; 8] = [1, 2, 7, 3, 64, 1, 500, 5];
        let n = STEPS[self.calls % STEPS.len()].min(buf.len()).min(self.data.len() - self.pos);
        self.calls += 1;
        buf[..n].copy_from_slice(&self.data[self.pos..self.pos + n]);
        self.pos += n;
        Ok(n)
    }
}

pub fn lib_decode(bytes: &[u8]) -> Result<(Vec<V>, usize), String> {
    let mut cur = std::io::Cursor::new(bytes);
    let whole = match rml_amf0::deserialize(&mut cur) {
        Ok(vs) => Ok((seq_from_lib(&vs), cur.position() as usize)),
        Err(e) => Err(format!("{:?}", e)),
    };
    // the same bytes through a reader that delivers them in pieces (bounded: small inputs always,
    // larger ones when their length is a multiple of 8)
    if bytes.len() <= 4096 || (bytes.len() <= (1 << 20) && bytes.len() % 8 == 0) {
        let mut ch = Choppy { data: bytes, pos: 0, calls: 0 };
        let pieces = match rml_amf0::deserialize(&mut ch) {
            Ok(vs) => Ok((seq_from_lib(&vs), ch.pos)),
            Err(e) => Err(format!("{:?}", e)),
        };
        let same = match (&whole, &pieces) {
            (Ok(a), Ok(b)) => a == b,
            (Err(_), Err(_)) => true,
            _ => false,
        };
        if !same {
            return Err(format!(
                "RESULT DEPENDS ON HOW THE READER DELIVERS THE BYTES: from a slice {}, from a reader returning short reads {}",
                match &whole { Ok(x) => format!("Ok({} values, {} bytes consumed)", x.0.len(), x.1), Err(e) => format!("Err({})", e) },
                match &pieces { Ok(x) => format!("Ok({} values, {} bytes consumed)", x.0.len(), x.1), Err(e) => format!("Err({})", e) }
            ));
        }
    }
    whole
}

pub fn lib_encode(vs: &[V]) -> Result<Vec<u8>, String> {
    let l = seq_to_lib(vs);
    rml_amf0::serialize(&l).map_err(|e| format!("{:?}", e))
}
