//! Independent RTMP chunk stream encoder ("foreign sender") and strict decoder ("conformant
//! receiver"), written from RTMP 1.0 section 5.3.  No code or constant of the library is used.

use crate::rng::Rng;
use std::collections::HashMap;

#[derive(Clone, PartialEq, Eq, Debug)]
pub struct Msg {
    pub type_id: u8,
    pub msid: u32,
    pub ts: u32,
    pub data: Vec<u8>,
}

impl Msg {
    pub fn brief(&self) -> serde_json::Value {
        serde_json::json!({
            "type": self.type_id, "msid": self.msid, "ts": self.ts, "len": self.data.len(),
            "data": crate::rng::hex_short(&self.data, 48)
        })
    }
}

pub fn first_difference(a: &[Msg], b: &[Msg]) -> Option<String> {
    for i in 0..a.len().min(b.len()) {
        if a[i] != b[i] {
            let what = if a[i].type_id != b[i].type_id {
                "type"
            } else if a[i].msid != b[i].msid {
                "msid"
            } else if a[i].ts != b[i].ts {
                "timestamp"
            } else if a[i].data.len() != b[i].data.len() {
                "length"
            } else {
                "payload"
            };
            return Some(format!(
                "message {} differs in {}: got {} want {}",
                i,
                what,
                a[i].brief(),
                b[i].brief()
            ));
        }
    }
    if a.len() != b.len() {
        return Some(format!("got {} messages, want {}", a.len(), b.len()));
    }
    None
}

pub fn first_difference_class(a: &[Msg], b: &[Msg]) -> Option<&'static str> {
    for i in 0..a.len().min(b.len()) {
        if a[i] != b[i] {
            return Some(if a[i].type_id != b[i].type_id {
                "type"
            } else if a[i].msid != b[i].msid {
                "msid"
            } else if a[i].ts != b[i].ts {
                "timestamp"
            } else if a[i].data.len() != b[i].data.len() {
                "length"
            } else {
                "payload"
            });
        }
    }
    if a.len() < b.len() {
        return Some("missing-message");
    }
    if a.len() > b.len() {
        return Some("extra-message");
    }
    None
}

// ---------------------------------------------------------------------------------------------
// Encoder

#[derive(Clone, Copy, Debug, PartialEq, Eq)]
pub enum CsidForm {
    /// shortest legal form
    Min,
    /// 3-byte form although the 2-byte form would do (legal, csid 64..319)
    Three,
}

#[derive(Clone, Debug)]
struct EncPrev {
    ts: u32,
    /// value of the last timestamp / timestamp-delta field sent on this csid (full 32 bits)
    field: u32,
    msid: u32,
    len: u32,
    type_id: u8,
}

#[derive(Clone, Copy, Debug)]
pub struct Choice {
    pub csid: u32,
    pub form: CsidForm,
    pub fmt: u8,
}

pub struct Encoder {
    pub chunk_size: usize,
    prev: HashMap<u32, EncPrev>,
}

pub fn basic_header(fmt: u8, csid: u32, form: CsidForm, out: &mut Vec<u8>) {
    assert!((2..=65599).contains(&csid));
    if csid <= 63 {
        out.push((fmt << 6) | csid as u8);
    } else if csid <= 319 && form == CsidForm::Min {
        out.push(fmt << 6);
        out.push((csid - 64) as u8);
    } else {
        out.push((fmt << 6) | 1);
        let x = csid - 64;
        out.push((x & 0xFF) as u8);
        out.push((x >> 8) as u8);
    }
}

fn put24(v: u32, out: &mut Vec<u8>) {
    out.push((v >> 16) as u8);
    out.push((v >> 8) as u8);
    out.push(v as u8);
}

impl Encoder {
    pub fn new() -> Encoder {
        Encoder {
            chunk_size: 128,
            prev: HashMap::new(),
        }
    }

    pub fn has_prev(&self, csid: u32) -> bool {
        self.prev.contains_key(&csid)
    }

    /// (timestamp, last field value, msid, length, type) of the previous message on `csid`
    pub fn prev_info(&self, csid: u32) -> Option<(u32, u32, u32, u32, u8)> {
        self.prev.get(&csid).map(|p| (p.ts, p.field, p.msid, p.len, p.type_id))
    }

    /// Header formats RTMP 5.3.1.2 permits for `m` as the next message on `csid`.
    /// `nonneg`: the sender's clock did not go backwards relative to the previous message on
    /// this csid and advanced by less than 2^32 ms (required for the delta formats).
    pub fn legal_fmts(&self, csid: u32, m: &Msg, nonneg: bool) -> Vec<u8> {
        let mut v = vec![0u8];
        if let Some(p) = self.prev.get(&csid) {
            if nonneg && p.msid == m.msid {
                v.push(1);
                if p.len == m.data.len() as u32 && p.type_id == m.type_id {
                    v.push(2);
                    if m.ts.wrapping_sub(p.ts) == p.field {
                        v.push(3);
                    }
                }
            }
        }
        v
    }

    /// Encode one message as a list of chunks (so a caller may interleave chunk streams).
    pub fn encode(&mut self, m: &Msg, c: &Choice) -> Vec<Vec<u8>> {
        assert!(m.data.len() <= 0xFFFFFF);
        assert!(self.chunk_size >= 1);
        let len = m.data.len() as u32;
        let field: u32 = match c.fmt {
            0 => m.ts,
            1 | 2 => m.ts.wrapping_sub(self.prev[&c.csid].ts),
            _ => self.prev[&c.csid].field,
        };
        let ext = field >= 0xFFFFFF;
        let mut chunks = Vec::new();
        let mut first = Vec::new();
        basic_header(c.fmt, c.csid, c.form, &mut first);
        match c.fmt {
            0 => {
                put24(field.min(0xFFFFFF), &mut first);
                put24(len, &mut first);
                first.push(m.type_id);
                first.extend_from_slice(&m.msid.to_le_bytes());
            }
            1 => {
                put24(field.min(0xFFFFFF), &mut first);
                put24(len, &mut first);
                first.push(m.type_id);
            }
            2 => {
                put24(field.min(0xFFFFFF), &mut first);
            }
            _ => {}
        }
        if ext {
            first.extend_from_slice(&field.to_be_bytes());
        }
        let n0 = m.data.len().min(self.chunk_size);
        first.extend_from_slice(&m.data[..n0]);
        chunks.push(first);
        let mut pos = n0;
        while pos < m.data.len() {
            let mut ch = Vec::new();
            basic_header(3, c.csid, c.form, &mut ch);
            if ext {
                ch.extend_from_slice(&field.to_be_bytes());
            }
            let n = (m.data.len() - pos).min(self.chunk_size);
            ch.extend_from_slice(&m.data[pos..pos + n]);
            pos += n;
            chunks.push(ch);
        }
        self.prev.insert(
            c.csid,
            EncPrev {
                ts: m.ts,
                field,
                msid: m.msid,
                len,
                type_id: m.type_id,
            },
        );
        chunks
    }

    pub fn encode_flat(&mut self, m: &Msg, c: &Choice) -> Vec<u8> {
        self.encode(m, c).concat()
    }

    /// Encode on a fixed csid choosing format 0 only when the rules require it (a plain
    /// well-behaved peer); used by the session-level drivers.
    pub fn encode_simple(&mut self, m: &Msg, csid: u32) -> Vec<u8> {
        let fmt = match self.prev.get(&csid) {
            None => 0,
            Some(p) => {
                let d = m.ts.wrapping_sub(p.ts);
                if p.msid != m.msid || d >= 0x8000_0000 {
                    0
                } else if p.len != m.data.len() as u32 || p.type_id != m.type_id {
                    1
                } else if d != p.field {
                    2
                } else {
                    3
                }
            }
        };
        self.encode_flat(
            m,
            &Choice {
                csid,
                form: CsidForm::Min,
                fmt,
            },
        )
    }

    /// Random legal choice for `m` on `csid`.
    pub fn random_choice(&self, rng: &mut Rng, csid: u32, m: &Msg, nonneg: bool, nonminimal_ok: bool) -> Choice {
        let fmts = self.legal_fmts(csid, m, nonneg);
        // prefer the most compressed formats: they are the rare ones
        let fmt = if rng.chance(2, 3) {
            *fmts.last().unwrap()
        } else {
            *rng.pick(&fmts)
        };
        let form = if nonminimal_ok && (64..=319).contains(&csid) && rng.chance(1, 3) {
            CsidForm::Three
        } else {
            CsidForm::Min
        };
        Choice { csid, form, fmt }
    }
}

pub fn set_chunk_size_msg(size: u32, ts: u32) -> Msg {
    Msg {
        type_id: 1,
        msid: 0,
        ts,
        data: size.to_be_bytes().to_vec(),
    }
}

// ---------------------------------------------------------------------------------------------
// Decoder

#[derive(Clone, Debug, Default)]
pub struct MsgTrace {
    pub csid: u32,
    pub bh_len: u8,
    pub fmt: u8,
    pub ext: bool,
    pub chunks: u32,
    pub cont_fmt0: u32,
    pub cont_ext: u32,
    pub chunk_size: usize,
    pub wrapped_delta: bool,
    /// total bytes of this message's chunks on the wire
    pub wire_len: usize,
}

#[derive(Clone, Debug)]
struct CsState {
    ts: u32,
    field: u32,
    ext: bool,
    msid: u32,
    len: u32,
    type_id: u8,
    partial: Option<Vec<u8>>,
    tr: MsgTrace,
}

/// [fmt][ext?1:0][first?0:1] chunk counts
pub type FmtMatrix = [[[u64; 2]; 2]; 4];

pub struct Decoder {
    pub chunk_size: usize,
    /// enforce the clauses a conformant sender must satisfy (C07/C18); otherwise decode leniently
    pub strict: bool,
    /// apply in-band SetChunkSize (type 1) messages as a peer would
    pub apply_scs: bool,
    cs: HashMap<u32, CsState>,
    buf: Vec<u8>,
    pub consumed: u64,
    pub mtrace: Vec<MsgTrace>,
    pub matrix: FmtMatrix,
    pub keep_mtrace: bool,
    /// number of chunks that arrived on a csid while another csid had a partial message
    pub interleaved_chunks: u64,
    /// chunk streams that currently hold a partial message (kept so that the interleaving
    /// observation does not cost a pass over all chunk streams per chunk)
    n_partial: usize,
    /// optional per-chunk log (stream offset of the chunk, basic header length, fmt, ext?, payload bytes)
    pub chunk_log: Option<Vec<ChunkLog>>,
}

#[derive(Clone, Copy, Debug)]
pub struct ChunkLog {
    pub offset: u64,
    pub bh: u8,
    pub fmt: u8,
    pub ext: bool,
    pub payload: usize,
}

enum Parse {
    NeedMore,
    Done(usize, Option<Msg>),
}

impl Decoder {
    pub fn new(strict: bool) -> Decoder {
        Decoder {
            chunk_size: 128,
            strict,
            apply_scs: true,
            cs: HashMap::new(),
            buf: Vec::new(),
            consumed: 0,
            mtrace: Vec::new(),
            matrix: [[[0; 2]; 2]; 4],
            keep_mtrace: true,
            interleaved_chunks: 0,
            n_partial: 0,
            chunk_log: None,
        }
    }

    pub fn pending_bytes(&self) -> usize {
        self.buf.len()
    }

    pub fn partial_messages(&self) -> usize {
        self.cs.values().filter(|c| c.partial.is_some()).count()
    }

    pub fn idle(&self) -> bool {
        self.buf.is_empty() && self.partial_messages() == 0
    }

    pub fn feed(&mut self, bytes: &[u8]) -> Result<Vec<Msg>, String> {
        self.buf.extend_from_slice(bytes);
        let mut out = Vec::new();
        let mut pos = 0usize;
        loop {
            match self.parse_chunk(pos)? {
                Parse::NeedMore => break,
                Parse::Done(n, m) => {
                    pos += n;
                    self.consumed += n as u64;
                    if let Some(m) = m {
                        if self.apply_scs && m.type_id == 1 && m.data.len() >= 4 {
                            let v = u32::from_be_bytes([m.data[0], m.data[1], m.data[2], m.data[3]]) & 0x7FFF_FFFF;
                            if v == 0 {
                                return Err("set-chunk-size-zero".into());
                            }
                            self.chunk_size = v as usize;
                        }
                        out.push(m);
                    }
                }
            }
        }
        if pos > 0 {
            self.buf.drain(..pos);
        }
        Ok(out)
    }

    fn parse_chunk(&mut self, start: usize) -> Result<Parse, String> {
        let b = &self.buf[start..];
        if b.is_empty() {
            return Ok(Parse::NeedMore);
        }
        let fmt = b[0] >> 6;
        let low = b[0] & 0x3F;
        let (csid, bh) = match low {
            0 => {
                if b.len() < 2 {
                    return Ok(Parse::NeedMore);
                }
                (b[1] as u32 + 64, 2usize)
            }
            1 => {
                if b.len() < 3 {
                    return Ok(Parse::NeedMore);
                }
                (b[2] as u32 * 256 + b[1] as u32 + 64, 3usize)
            }
            x => (x as u32, 1usize),
        };
        if self.strict && bh == 3 && csid <= 319 {
            return Err(format!("csid-not-minimal: csid {} sent in 3-byte form", csid));
        }
        let mh = match fmt {
            0 => 11,
            1 => 7,
            2 => 3,
            _ => 0,
        };
        let prev = self.cs.get(&csid);
        if fmt != 0 && prev.is_none() {
            return Err(format!("fmt{}-without-predecessor on csid {}", fmt, csid));
        }
        if b.len() < bh + mh {
            return Ok(Parse::NeedMore);
        }
        let continuing = prev.map(|p| p.partial.is_some()).unwrap_or(false);
        let h = &b[bh..];
        let field24 = if fmt <= 2 {
            Some(((h[0] as u32) << 16) | ((h[1] as u32) << 8) | h[2] as u32)
        } else {
            None
        };
        let has_ext = match field24 {
            Some(f) => f == 0xFFFFFF,
            None => prev.unwrap().ext,
        };
        let hdr = bh + mh + if has_ext { 4 } else { 0 };
        if b.len() < hdr {
            return Ok(Parse::NeedMore);
        }
        let ext_val = if has_ext {
            let e = &b[bh + mh..];
            Some(u32::from_be_bytes([e[0], e[1], e[2], e[3]]))
        } else {
            None
        };
        if self.strict {
            if let Some(e) = ext_val {
                if e < 0xFFFFFF {
                    return Err(format!("ext-below-saturation: extended timestamp {} on csid {}", e, csid));
                }
            }
        }
        let field_full = match (field24, ext_val) {
            (Some(_), Some(e)) => e,
            (Some(f), None) => f,
            (None, _) => prev.unwrap().field,
        };
        if self.strict && fmt == 3 {
            if let Some(e) = ext_val {
                if e != prev.unwrap().field {
                    return Err(format!(
                        "fmt3-ext-mismatch: type-3 chunk carries extended value {} but the preceding header's was {}",
                        e,
                        prev.unwrap().field
                    ));
                }
            }
        }

        // header fields of the message this chunk belongs to
        let (ts, msid, len, type_id, wrapped) = match fmt {
            0 => {
                let len = ((h[3] as u32) << 16) | ((h[4] as u32) << 8) | h[5] as u32;
                let ty = h[6];
                let msid = u32::from_le_bytes([h[7], h[8], h[9], h[10]]);
                (field_full, msid, len, ty, false)
            }
            1 => {
                let p = prev.unwrap();
                let len = ((h[3] as u32) << 16) | ((h[4] as u32) << 8) | h[5] as u32;
                (p.ts.wrapping_add(field_full), p.msid, len, h[6], field_full >= 0x8000_0000)
            }
            2 => {
                let p = prev.unwrap();
                (p.ts.wrapping_add(field_full), p.msid, p.len, p.type_id, field_full >= 0x8000_0000)
            }
            _ => {
                let p = prev.unwrap();
                if continuing {
                    (p.ts, p.msid, p.len, p.type_id, false)
                } else {
                    (p.ts.wrapping_add(p.field), p.msid, p.len, p.type_id, false)
                }
            }
        };

        if continuing {
            let p = prev.unwrap();
            match fmt {
                3 => {}
                0 => {
                    if ts != p.ts || msid != p.msid || len != p.len || type_id != p.type_id {
                        return Err(format!(
                            "continuation-fmt0-header-differs on csid {}: message in progress has (ts {}, msid {}, len {}, type {}), chunk says (ts {}, msid {}, len {}, type {})",
                            csid, p.ts, p.msid, p.len, p.type_id, ts, msid, len, type_id
                        ));
                    }
                }
                _ => {
                    if self.strict {
                        return Err(format!("continuation-with-fmt{} on csid {}", fmt, csid));
                    } else {
                        return Err(format!("continuation-with-fmt{} on csid {} (not decodable)", fmt, csid));
                    }
                }
            }
        }

        let have = if continuing {
            prev.unwrap().partial.as_ref().unwrap().len()
        } else {
            0
        };
        let remaining = (len as usize).saturating_sub(have);
        let take = remaining.min(self.chunk_size);
        if b.len() < hdr + take {
            return Ok(Parse::NeedMore);
        }
        let payload = &b[hdr..hdr + take];

        // other chunk streams with a partial message => this chunk is interleaved
        if self.n_partial > continuing as usize {
            self.interleaved_chunks += 1;
        }
        self.matrix[fmt as usize][has_ext as usize][continuing as usize] += 1;
        if let Some(log) = self.chunk_log.as_mut() {
            log.push(ChunkLog { offset: self.consumed, bh: bh as u8, fmt, ext: has_ext, payload: take });
        }

        let total = hdr + take;
        let chunk_size = self.chunk_size;
        let st = self.cs.entry(csid).or_insert(CsState {
            ts: 0,
            field: 0,
            ext: false,
            msid: 0,
            len: 0,
            type_id: 0,
            partial: None,
            tr: MsgTrace::default(),
        });
        let payload = payload.to_vec();
        if continuing {
            st.tr.chunks += 1;
            st.tr.wire_len += total;
            if fmt == 0 {
                st.tr.cont_fmt0 += 1;
            }
            if has_ext {
                st.tr.cont_ext += 1;
            }
            st.partial.as_mut().unwrap().extend_from_slice(&payload);
        } else {
            st.ts = ts;
            st.msid = msid;
            st.len = len;
            st.type_id = type_id;
            st.field = field_full;
            st.ext = has_ext;
            st.tr = MsgTrace {
                csid,
                bh_len: bh as u8,
                fmt,
                ext: has_ext,
                chunks: 1,
                cont_fmt0: 0,
                cont_ext: 0,
                chunk_size,
                wrapped_delta: wrapped,
                wire_len: total,
            };
            let mut v = Vec::with_capacity((len as usize).min(1 << 20));
            v.extend_from_slice(&payload);
            st.partial = Some(v);
            self.n_partial += 1;
        }
        if fmt == 0 && continuing {
            // a full header on a continuation chunk restates the same values
            st.field = field_full;
            st.ext = has_ext;
        }
        let done = st.partial.as_ref().unwrap().len() == st.len as usize;
        let msg = if done {
            let data = st.partial.take().unwrap();
            self.n_partial -= 1;
            let m = Msg {
                type_id: st.type_id,
                msid: st.msid,
                ts: st.ts,
                data,
            };
            if self.keep_mtrace {
                let tr = st.tr.clone();
                self.mtrace.push(tr);
            }
            Some(m)
        } else {
            None
        };
        Ok(Parse::Done(total, msg))
    }
}

pub fn matrix_add(a: &mut FmtMatrix, b: &FmtMatrix) {
    for f in 0..4 {
        for e in 0..2 {
            for c in 0..2 {
                a[f][e][c] += b[f][e][c];
            }
        }
    }
}

pub fn matrix_counters(m: &FmtMatrix, prefix: &str, out: &mut crate::fw::Out) {
    for f in 0..4 {
        for e in 0..2 {
            for c in 0..2 {
                if m[f][e][c] > 0 {
                    out.count(
                        &format!(
                            "{}fmt{}_{}_{}",
                            prefix,
                            f,
                            if e == 1 { "ext" } else { "noext" },
                            if c == 1 { "continuation" } else { "first" }
                        ),
                        m[f][e][c],
                    );
                }
            }
        }
    }
}

// ---------------------------------------------------------------------------------------------
// self-test: encoder -> decoder round trip over random histories

pub fn gen_foreign_history(rng: &mut Rng, n: usize, max_len: usize, nonminimal_ok: bool) -> (Vec<Msg>, Vec<u8>, FmtMatrix) {
    let mut enc = Encoder::new();
    let mut clocks: HashMap<u32, u64> = HashMap::new();
    let mut msgs = Vec::new();
    let mut bytes = Vec::new();
    let csids: Vec<u32> = vec![2, 3, 63, 64, 65, 319, 320, 1000, 65599, rng.range(2, 65599) as u32];
    for _ in 0..n {
        if rng.chance(1, 10) {
            let size = *rng.pick(&[1u32, 2, 31, 128, 129, 4096, 70000]);
            let m = set_chunk_size_msg(size, 0);
            let c = enc.random_choice(rng, 2, &m, false, false);
            bytes.extend_from_slice(&enc.encode_flat(&m, &c));
            enc.chunk_size = size as usize;
            msgs.push(m);
            continue;
        }
        let csid = *rng.pick(&csids);
        let clock = clocks.entry(csid).or_insert_with(|| rng.u32_boundary() as u64);
        let step: u64 = match rng.below(6) {
            0 => 0,
            1 => 33,
            2 => 0xFFFFFF,
            3 => 0x1000000,
            4 => rng.below(1 << 31),
            _ => rng.below(100),
        };
        let step = match enc.prev_info(csid) {
            Some((_, field, _, _, _)) if rng.chance(1, 3) => field as u64,
            _ => step,
        };
        *clock += step;
        let len = match rng.below(6) {
            0 => 0,
            1 => enc.chunk_size,
            2 => enc.chunk_size + 1,
            3 => rng.usize(0, max_len),
            _ => rng.usize(0, 40),
        }
        .min(max_len);
        let m = Msg {
            type_id: *rng.pick(&[8u8, 9, 18, 20, 4, 22, 0, 255]),
            msid: *rng.pick(&[0u32, 1, 1, 1, 5, 0xFFFFFFFF]),
            ts: *clock as u32,
            data: rng.bytes(len),
        };
        let c = enc.random_choice(rng, csid, &m, true, nonminimal_ok);
        bytes.extend_from_slice(&enc.encode_flat(&m, &c));
        msgs.push(m);
    }
    (msgs, bytes, [[[0; 2]; 2]; 4])
}

pub fn selftest() -> Result<(), String> {
    // a hand-assembled stream: fmt0 with 2-byte csid, then fmt3 new message (delta = timestamp)
    let mut d = Decoder::new(true);
    let bytes = crate::rng::unhex("00000000640000030801000000aabbccc000ddeeff").unwrap();
    let got = d.feed(&bytes)?;
    if got.len() != 2 || got[0].ts != 100 || got[1].ts != 200 || got[1].data != vec![0xdd, 0xee, 0xff] || got[0].msid != 1 {
        return Err(format!("hand-built stream decoded wrongly: {:?}", got));
    }
    let mut rng = Rng::new(4242);
    for round in 0..1000 {
        let nonminimal = round % 2 == 1;
        let (msgs, bytes, _) = gen_foreign_history(&mut rng, 12, 700, nonminimal);
        for strict in [true, false] {
            if strict && nonminimal {
                continue;
            }
            let mut d = Decoder::new(strict);
            let mut got = Vec::new();
            let parts = crate::rng::partition(&mut rng, bytes.len(), round);
            let mut p = 0;
            for n in parts {
                got.extend(d.feed(&bytes[p..p + n])?);
                p += n;
            }
            if let Some(diff) = first_difference(&got, &msgs) {
                return Err(format!("refchunk round trip (strict={}): {}", strict, diff));
            }
            if !d.idle() {
                return Err("refchunk round trip: decoder not idle at end".into());
            }
        }
    }
    // strict clauses fire
    let mut d = Decoder::new(true);
    if d.feed(&[0x43, 0, 0, 0]).is_ok() {
        return Err("fmt1 without predecessor accepted".into());
    }
    let mut d = Decoder::new(true);
    // 3-byte form for csid 64
    if d.feed(&crate::rng::unhex("0100000000000000010000000000aa").unwrap()).is_ok() {
        return Err("non-minimal csid accepted in strict mode".into());
    }
    let mut d = Decoder::new(true);
    // field 0xFFFFFF with ext 5
    if d.feed(&crate::rng::unhex("02ffffff000001080000000000000005aa").unwrap()).is_ok() {
        return Err("extended timestamp below saturation accepted in strict mode".into());
    }
    Ok(())
}
