//! RTMP message body layouts and the type-id table, written from RTMP 1.0 sections 5.4, 6.2, 7.1
//! (and the two unofficial user-control events 31/32 the library documents).  Independent of the
//! library's `messages` module; AMF0 bodies go through `refs::amf`.

use super::amf::{self, V};
use crate::rng::Rng;
use bytes::Bytes;
use rml_rtmp::messages::{PeerBandwidthLimitType, RtmpMessage, UserControlEventType};
use rml_rtmp::time::RtmpTimestamp;
use serde_json::{json, Value};

#[derive(Clone, Debug, PartialEq)]
pub enum RMsg {
    SetChunkSize(u32),
    Abort(u32),
    Ack(u32),
    /// event code and its 32-bit fields in wire order
    UserControl(u16, Vec<u32>),
    WinAck(u32),
    /// size, limit code
    SetPeerBw(u32, u8),
    Audio(Vec<u8>),
    Video(Vec<u8>),
    Data(Vec<V>),
    Command {
        name: String,
        txid: u64,
        obj: V,
        args: Vec<V>,
    },
    Unknown(u8, Vec<u8>),
}

pub const KNOWN_TYPE_IDS: [u8; 12] = [1, 2, 3, 4, 5, 6, 8, 9, 15, 17, 18, 20];

/// user-control events: code -> number of u32 fields
pub const UC_EVENTS: [(u16, usize); 9] = [
    (0, 1),  // StreamBegin(stream id)
    (1, 1),  // StreamEOF(stream id)
    (2, 1),  // StreamDry(stream id)
    (3, 2),  // SetBufferLength(stream id, ms)
    (4, 1),  // StreamIsRecorded(stream id)
    (6, 1),  // PingRequest(timestamp)
    (7, 1),  // PingResponse(timestamp)
    (31, 1), // BufferEmpty(stream id)
    (32, 1), // BufferReady(stream id)
];

pub fn uc_fields(code: u16) -> Option<usize> {
    UC_EVENTS.iter().find(|e| e.0 == code).map(|e| e.1)
}

impl RMsg {
    pub fn type_id(&self) -> u8 {
        match self {
            RMsg::SetChunkSize(_) => 1,
            RMsg::Abort(_) => 2,
            RMsg::Ack(_) => 3,
            RMsg::UserControl(..) => 4,
            RMsg::WinAck(_) => 5,
            RMsg::SetPeerBw(..) => 6,
            RMsg::Audio(_) => 8,
            RMsg::Video(_) => 9,
            RMsg::Data(_) => 18,
            RMsg::Command { .. } => 20,
            RMsg::Unknown(t, _) => *t,
        }
    }

    /// canonical body bytes (objects in the given property order)
    pub fn body(&self) -> Vec<u8> {
        match self {
            RMsg::SetChunkSize(x) | RMsg::Abort(x) | RMsg::Ack(x) | RMsg::WinAck(x) => x.to_be_bytes().to_vec(),
            RMsg::UserControl(code, fields) => {
                let mut v = code.to_be_bytes().to_vec();
                for f in fields {
                    v.extend_from_slice(&f.to_be_bytes());
                }
                v
            }
            RMsg::SetPeerBw(size, limit) => {
                let mut v = size.to_be_bytes().to_vec();
                v.push(*limit);
                v
            }
            RMsg::Audio(d) | RMsg::Video(d) | RMsg::Unknown(_, d) => d.clone(),
            RMsg::Data(vs) => amf::encode(vs),
            RMsg::Command { name, txid, obj, args } => {
                let mut all = vec![V::Str(name.clone()), V::Num(*txid), obj.clone()];
                all.extend(args.iter().cloned());
                amf::encode(&all)
            }
        }
    }

    pub fn canon(&self) -> RMsg {
        match self {
            RMsg::Data(vs) => RMsg::Data(amf::seq_canon(vs)),
            RMsg::Command { name, txid, obj, args } => RMsg::Command {
                name: name.clone(),
                txid: *txid,
                obj: obj.canon(),
                args: amf::seq_canon(args),
            },
            x => x.clone(),
        }
    }

    pub fn to_json(&self) -> Value {
        match self {
            RMsg::SetChunkSize(x) => json!({"SetChunkSize": x}),
            RMsg::Abort(x) => json!({"Abort": x}),
            RMsg::Ack(x) => json!({"Acknowledgement": x}),
            RMsg::UserControl(c, f) => json!({"UserControl": {"event": c, "fields": f}}),
            RMsg::WinAck(x) => json!({"WindowAcknowledgement": x}),
            RMsg::SetPeerBw(s, l) => json!({"SetPeerBandwidth": {"size": s, "limit": l}}),
            RMsg::Audio(d) => json!({"Audio": crate::rng::hex_short(d, 32)}),
            RMsg::Video(d) => json!({"Video": crate::rng::hex_short(d, 32)}),
            RMsg::Data(vs) => json!({"Data": amf::seq_json(vs)}),
            RMsg::Command { name, txid, obj, args } => json!({"Command": {"name": name,
                "txid_bits": format!("{:016x}", txid), "txid": format!("{:?}", f64::from_bits(*txid)),
                "object": obj.to_json(), "args": amf::seq_json(args)}}),
            RMsg::Unknown(t, d) => json!({"Unknown": {"type": t, "data": crate::rng::hex_short(d, 32)}}),
        }
    }

    /// The library value denoting the same message (None if the library type cannot express it,
    /// e.g. an unknown user-control event code or limit code).
    pub fn to_lib(&self) -> Option<RtmpMessage> {
        Some(match self {
            RMsg::SetChunkSize(x) => RtmpMessage::SetChunkSize { size: *x },
            RMsg::Abort(x) => RtmpMessage::Abort { stream_id: *x },
            RMsg::Ack(x) => RtmpMessage::Acknowledgement { sequence_number: *x },
            RMsg::WinAck(x) => RtmpMessage::WindowAcknowledgement { size: *x },
            RMsg::SetPeerBw(s, l) => RtmpMessage::SetPeerBandwidth {
                size: *s,
                limit_type: match l {
                    0 => PeerBandwidthLimitType::Hard,
                    1 => PeerBandwidthLimitType::Soft,
                    2 => PeerBandwidthLimitType::Dynamic,
                    _ => return None,
                },
            },
            RMsg::UserControl(code, f) => {
                let event_type = match code {
                    0 => UserControlEventType::StreamBegin,
                    1 => UserControlEventType::StreamEof,
                    2 => UserControlEventType::StreamDry,
                    3 => UserControlEventType::SetBufferLength,
                    4 => UserControlEventType::StreamIsRecorded,
                    6 => UserControlEventType::PingRequest,
                    7 => UserControlEventType::PingResponse,
                    31 => UserControlEventType::BufferEmpty,
                    32 => UserControlEventType::BufferReady,
                    _ => return None,
                };
                if f.len() != uc_fields(*code)? {
                    return None;
                }
                let (stream_id, buffer_length, timestamp) = match code {
                    3 => (Some(f[0]), Some(f[1]), None),
                    6 | 7 => (None, None, Some(RtmpTimestamp::new(f[0]))),
                    _ => (Some(f[0]), None, None),
                };
                RtmpMessage::UserControl {
                    event_type,
                    stream_id,
                    buffer_length,
                    timestamp,
                }
            }
            RMsg::Audio(d) => RtmpMessage::AudioData {
                data: Bytes::from(d.clone()),
            },
            RMsg::Video(d) => RtmpMessage::VideoData {
                data: Bytes::from(d.clone()),
            },
            RMsg::Data(vs) => RtmpMessage::Amf0Data {
                values: amf::seq_to_lib(vs),
            },
            RMsg::Command { name, txid, obj, args } => RtmpMessage::Amf0Command {
                command_name: name.clone(),
                transaction_id: f64::from_bits(*txid),
                command_object: obj.to_lib(),
                additional_arguments: amf::seq_to_lib(args),
            },
            RMsg::Unknown(t, d) => RtmpMessage::Unknown {
                type_id: *t,
                data: Bytes::from(d.clone()),
            },
        })
    }

    /// canonical reference value of a library message
    pub fn from_lib(m: &RtmpMessage) -> RMsg {
        match m {
            RtmpMessage::SetChunkSize { size } => RMsg::SetChunkSize(*size),
            RtmpMessage::Abort { stream_id } => RMsg::Abort(*stream_id),
            RtmpMessage::Acknowledgement { sequence_number } => RMsg::Ack(*sequence_number),
            RtmpMessage::WindowAcknowledgement { size } => RMsg::WinAck(*size),
            RtmpMessage::SetPeerBandwidth { size, limit_type } => RMsg::SetPeerBw(
                *size,
                match limit_type {
                    PeerBandwidthLimitType::Hard => 0,
                    PeerBandwidthLimitType::Soft => 1,
                    PeerBandwidthLimitType::Dynamic => 2,
                },
            ),
            RtmpMessage::UserControl {
                event_type,
                stream_id,
                buffer_length,
                timestamp,
            } => {
                let code = match event_type {
                    UserControlEventType::StreamBegin => 0,
                    UserControlEventType::StreamEof => 1,
                    UserControlEventType::StreamDry => 2,
                    UserControlEventType::SetBufferLength => 3,
                    UserControlEventType::StreamIsRecorded => 4,
                    UserControlEventType::PingRequest => 6,
                    UserControlEventType::PingResponse => 7,
                    UserControlEventType::BufferEmpty => 31,
                    UserControlEventType::BufferReady => 32,
                };
                let mut f = Vec::new();
                // order: stream id, buffer length, timestamp; absent fields are simply absent, so a
                // library value with the wrong set of fields maps to a different reference value
                if let Some(x) = stream_id {
                    f.push(*x);
                }
                if let Some(x) = buffer_length {
                    f.push(*x);
                }
                if let Some(x) = timestamp {
                    f.push(x.value);
                }
                RMsg::UserControl(code, f)
            }
            RtmpMessage::AudioData { data } => RMsg::Audio(data.to_vec()),
            RtmpMessage::VideoData { data } => RMsg::Video(data.to_vec()),
            RtmpMessage::Amf0Data { values } => RMsg::Data(amf::seq_from_lib(values)),
            RtmpMessage::Amf0Command {
                command_name,
                transaction_id,
                command_object,
                additional_arguments,
            } => RMsg::Command {
                name: command_name.clone(),
                txid: transaction_id.to_bits(),
                obj: V::from_lib(command_object),
                args: amf::seq_from_lib(additional_arguments),
            },
            RtmpMessage::Unknown { type_id, data } => RMsg::Unknown(*type_id, data.to_vec()),
        }
    }
}

/// Strict decoding of a message body per the specification.  Types 15/17 are the AMF3-flagged
/// variants which (per the property statement) decode as their AMF0 equivalents; other ids pass
/// through untouched.
pub fn decode(type_id: u8, body: &[u8]) -> Result<RMsg, String> {
    fn be32(b: &[u8]) -> Result<u32, String> {
        if b.len() < 4 {
            return Err("body shorter than 4 bytes".into());
        }
        Ok(u32::from_be_bytes([b[0], b[1], b[2], b[3]]))
    }
    match type_id {
        1 => {
            let v = be32(body)?;
            if v > 0x7FFF_FFFF {
                return Err("chunk size with top bit set".into());
            }
            Ok(RMsg::SetChunkSize(v))
        }
        2 => Ok(RMsg::Abort(be32(body)?)),
        3 => Ok(RMsg::Ack(be32(body)?)),
        5 => Ok(RMsg::WinAck(be32(body)?)),
        6 => {
            let v = be32(body)?;
            if body.len() < 5 {
                return Err("no limit type".into());
            }
            if body[4] > 2 {
                return Err("unknown limit type".into());
            }
            Ok(RMsg::SetPeerBw(v, body[4]))
        }
        4 => {
            if body.len() < 2 {
                return Err("no event type".into());
            }
            let code = u16::from_be_bytes([body[0], body[1]]);
            let n = uc_fields(code).ok_or_else(|| format!("unknown user control event {}", code))?;
            if body.len() < 2 + 4 * n {
                return Err("user control body too short".into());
            }
            let mut f = Vec::new();
            for i in 0..n {
                f.push(be32(&body[2 + 4 * i..])?);
            }
            Ok(RMsg::UserControl(code, f))
        }
        8 => Ok(RMsg::Audio(body.to_vec())),
        9 => Ok(RMsg::Video(body.to_vec())),
        18 | 15 => Ok(RMsg::Data(amf::decode_strict(body)?)),
        20 | 17 => {
            let b = if type_id == 17 && !body.is_empty() && body[0] == 0 {
                &body[1..]
            } else {
                body
            };
            let vs = amf::decode_strict(b)?;
            if vs.len() < 3 {
                return Err("command with fewer than three values".into());
            }
            let name = match &vs[0] {
                V::Str(s) => s.clone(),
                _ => return Err("command name is not a string".into()),
            };
            let txid = match &vs[1] {
                V::Num(b) => *b,
                _ => return Err("transaction id is not a number".into()),
            };
            Ok(RMsg::Command {
                name,
                txid,
                obj: vs[2].clone(),
                args: vs[3..].to_vec(),
            })
        }
        t => Ok(RMsg::Unknown(t, body.to_vec())),
    }
}

// ---------------------------------------------------------------------------------------------
// generator of well-formed messages

pub fn gen_msg(rng: &mut Rng, max_payload: usize) -> RMsg {
    let cfg = amf::GenCfg {
        max_depth: 3,
        max_children: 4,
        inexpressible: false,
        // one message in ten may carry strings of several KiB up to the 65,535-byte limit
        long_strings: rng.chance(1, 10),
    };
    match rng.below(12) {
        0 => RMsg::SetChunkSize(rng.u32_boundary() & 0x7FFF_FFFF),
        1 => RMsg::Abort(rng.u32_boundary()),
        2 => RMsg::Ack(rng.u32_boundary()),
        3 => RMsg::WinAck(rng.u32_boundary()),
        4 => RMsg::SetPeerBw(rng.u32_boundary(), rng.below(3) as u8),
        5 => {
            let (code, n) = *rng.pick(&UC_EVENTS);
            RMsg::UserControl(code, (0..n).map(|_| rng.u32_boundary()).collect())
        }
        6 => RMsg::Audio(gen_payload(rng, max_payload)),
        7 => RMsg::Video(gen_payload(rng, max_payload)),
        8 => RMsg::Data(amf::gen_seq(rng, &cfg)),
        9 | 10 => {
            let name = match rng.below(6) {
                0 => "connect".to_string(),
                1 => "_result".to_string(),
                2 => "onStatus".to_string(),
                3 => String::new(),
                _ => amf::gen_string(rng, &cfg, false),
            };
            let txid = match rng.below(5) {
                0 => (rng.below(10) as f64).to_bits(),
                1 => 0x7FF8000000000001,
                2 => 0x8000000000000000,
                3 => rng.next(),
                _ => (rng.u32() as f64).to_bits(),
            };
            RMsg::Command {
                name,
                txid,
                obj: amf::gen_value(rng, &cfg, 0),
                args: amf::gen_seq(rng, &cfg),
            }
        }
        _ => {
            // any id the specification does not define a body for in this library's table
            let mut t;
            loop {
                t = rng.u8();
                if !KNOWN_TYPE_IDS.contains(&t) {
                    break;
                }
            }
            RMsg::Unknown(t, gen_payload(rng, max_payload))
        }
    }
}

impl RMsg {
    /// false when the message carries a string or property name AMF0's u16 length cannot hold
    /// (or an empty property name): such a message may be refused, or carried some other
    /// correct way (AMF0 long strings), but never be converted into something that does not
    /// convert back
    /// deepest AMF0 nesting in the message (a codec may have a nesting limit; beyond 32 levels a
    /// refusal is accepted, an acceptance must still convert back)
    pub fn amf_depth(&self) -> usize {
        match self {
            RMsg::Data(vs) => vs.iter().map(|v| v.depth()).max().unwrap_or(0),
            RMsg::Command { obj, args, .. } => args.iter().map(|v| v.depth()).max().unwrap_or(0).max(obj.depth()),
            _ => 0,
        }
    }

    pub fn amf_expressible(&self) -> bool {
        match self {
            RMsg::Data(vs) => vs.iter().all(amf::expressible),
            RMsg::Command { name, obj, args, .. } => name.len() <= 65535 && amf::expressible(obj) && args.iter().all(amf::expressible),
            _ => true,
        }
    }
}

/// a command or data message with one string (or name) of more than 65,535 bytes, ASCII or
/// multi-byte, so that byte and character counts differ
pub fn gen_msg_with_long_string(rng: &mut Rng) -> RMsg {
    let cfg = amf::GenCfg { max_depth: 1, max_children: 2, inexpressible: true, long_strings: true };
    let long = loop {
        let s = amf::gen_string(rng, &cfg, false);
        if s.len() > 65535 {
            break s;
        }
    };
    let carrier = match rng.below(3) {
        0 => amf::V::Str(long),
        1 => amf::V::Obj(vec![("k".to_string(), amf::V::Str(long))]),
        _ => amf::V::Obj(vec![(long, amf::V::Null)]),
    };
    if rng.coin() {
        RMsg::Data(vec![amf::s("onMetaData"), carrier])
    } else {
        RMsg::Command { name: "call".to_string(), txid: 2f64.to_bits(), obj: amf::V::Null, args: vec![carrier] }
    }
}

pub fn gen_payload(rng: &mut Rng, max: usize) -> Vec<u8> {
    let n = match rng.below(8) {
        0 => 0,
        1 => 1,
        2 => rng.usize(0, max),
        3 => max,
        _ => rng.usize(0, 64.min(max)),
    };
    rng.bytes(n)
}

pub fn selftest() -> Result<(), String> {
    use crate::rng::hex;
    // fixed vectors straight from the specification's field layouts
    let cases: Vec<(RMsg, u8, &str)> = vec![
        (RMsg::SetChunkSize(4096), 1, "00001000"),
        (RMsg::Abort(5), 2, "00000005"),
        (RMsg::Ack(0x01020304), 3, "01020304"),
        (RMsg::WinAck(2500000), 5, "002625a0"),
        (RMsg::SetPeerBw(2500000, 2), 6, "002625a002"),
        (RMsg::UserControl(0, vec![1]), 4, "000000000001"),
        (RMsg::UserControl(3, vec![1, 1000]), 4, "000300000001000003e8"),
        (RMsg::UserControl(6, vec![0xAABBCCDD]), 4, "0006aabbccdd"),
        (RMsg::UserControl(7, vec![7]), 4, "000700000007"),
        (RMsg::UserControl(32, vec![9]), 4, "002000000009"),
        (
            RMsg::Command {
                name: "a".into(),
                txid: 1.0f64.to_bits(),
                obj: V::Null,
                args: vec![],
            },
            20,
            "02000161003ff000000000000005",
        ),
    ];
    for (m, ty, body) in cases {
        if m.type_id() != ty || hex(&m.body()) != body {
            return Err(format!("refmsg vector failed for {:?}: {}", m, hex(&m.body())));
        }
        let d = decode(ty, &m.body())?;
        if d != m {
            return Err(format!("refmsg decode vector failed for {:?}", m));
        }
    }
    let mut rng = Rng::new(99);
    for _ in 0..500 {
        let m = gen_msg(&mut rng, 300);
        let d = decode(m.type_id(), &m.body())?;
        if d.canon() != m.canon() {
            return Err(format!("refmsg round trip failed for {:?}", m));
        }
    }
    Ok(())
}
