//! Counting global allocator: the memory oracle (DESIGN 2.3).
//!
//! Tracks live bytes and the peak since the last `mark()`.  A hard ceiling on live bytes turns a
//! runaway allocation into an observable worker exit (code 97) instead of taking the machine down.

use std::alloc::{GlobalAlloc, Layout, System};
use std::sync::atomic::{AtomicBool, AtomicU64, AtomicUsize, Ordering};

pub struct Counting;

static LIVE: AtomicUsize = AtomicUsize::new(0);
static PEAK: AtomicUsize = AtomicUsize::new(0);
/// a second, independent peak for the per-call CPU monitor (fw::lib_call), so that its windows do
/// not disturb the memory oracle's
static PEAK_CALL: AtomicUsize = AtomicUsize::new(0);
static ALLOCS: AtomicU64 = AtomicU64::new(0);
static CEILING: AtomicUsize = AtomicUsize::new(usize::MAX);
static TRIPPED: AtomicBool = AtomicBool::new(false);

#[inline]
fn on_alloc(size: usize) {
    let live = LIVE.fetch_add(size, Ordering::Relaxed) + size;
    ALLOCS.fetch_add(1, Ordering::Relaxed);
    let mut peak = PEAK.load(Ordering::Relaxed);
    while live > peak {
        match PEAK.compare_exchange_weak(peak, live, Ordering::Relaxed, Ordering::Relaxed) {
            Ok(_) => break,
            Err(p) => peak = p,
        }
    }
    if live > PEAK_CALL.load(Ordering::Relaxed) {
        PEAK_CALL.fetch_max(live, Ordering::Relaxed);
    }
    if live > CEILING.load(Ordering::Relaxed) && !TRIPPED.swap(true, Ordering::SeqCst) {
        // No allocation allowed here: write a fixed message with a raw syscall and leave.
        let msg = b"\nALLOC-CEILING live bytes exceeded the worker ceiling\n";
        unsafe {
            libc::write(1, msg.as_ptr() as *const libc::c_void, msg.len());
            libc::write(2, msg.as_ptr() as *const libc::c_void, msg.len());
            libc::_exit(97);
        }
    }
}

unsafe impl GlobalAlloc for Counting {
    unsafe fn alloc(&self, layout: Layout) -> *mut u8 {
        let p = System.alloc(layout);
        if !p.is_null() {
            on_alloc(layout.size());
        }
        p
    }

    unsafe fn alloc_zeroed(&self, layout: Layout) -> *mut u8 {
        let p = System.alloc_zeroed(layout);
        if !p.is_null() {
            on_alloc(layout.size());
        }
        p
    }

    unsafe fn dealloc(&self, ptr: *mut u8, layout: Layout) {
        System.dealloc(ptr, layout);
        LIVE.fetch_sub(layout.size(), Ordering::Relaxed);
    }

    unsafe fn realloc(&self, ptr: *mut u8, layout: Layout, new_size: usize) -> *mut u8 {
        let p = System.realloc(ptr, layout, new_size);
        if !p.is_null() {
            if new_size >= layout.size() {
                on_alloc(new_size - layout.size());
            } else {
                LIVE.fetch_sub(layout.size() - new_size, Ordering::Relaxed);
            }
        }
        p
    }
}

/// Start a measurement window: peak := live.  Returns the live byte count at the mark.
pub fn mark() -> usize {
    let live = LIVE.load(Ordering::Relaxed);
    PEAK.store(live, Ordering::Relaxed);
    live
}

/// Peak of live bytes since the last `mark()`, minus the live bytes at the mark
/// (pass the value `mark()` returned).
pub fn peak_since(mark_live: usize) -> usize {
    PEAK.load(Ordering::Relaxed).saturating_sub(mark_live)
}

/// window of the per-call CPU monitor: peak := live
pub fn mark_call() -> usize {
    let live = LIVE.load(Ordering::Relaxed);
    PEAK_CALL.store(live, Ordering::Relaxed);
    live
}

/// growth of live bytes (peak over the mark) since `mark_call()`
pub fn peak_since_call(mark_live: usize) -> usize {
    PEAK_CALL.load(Ordering::Relaxed).saturating_sub(mark_live)
}

pub fn live() -> usize {
    LIVE.load(Ordering::Relaxed)
}

pub fn allocs() -> u64 {
    ALLOCS.load(Ordering::Relaxed)
}

pub fn set_ceiling(bytes: usize) {
    CEILING.store(bytes, Ordering::Relaxed);
}
