//! Conversions between the library's types and the harness' neutral types, and small drivers.

use crate::refs::chunk::Msg;
use bytes::Bytes;
use rml_rtmp::chunk_io::ChunkDeserializer;
use rml_rtmp::messages::MessagePayload;
use rml_rtmp::time::RtmpTimestamp;

pub fn to_payload(m: &Msg) -> MessagePayload {
    MessagePayload {
        timestamp: RtmpTimestamp::new(m.ts),
        type_id: m.type_id,
        message_stream_id: m.msid,
        data: Bytes::from(m.data.clone()),
    }
}

pub fn from_payload(p: &MessagePayload) -> Msg {
    Msg {
        type_id: p.type_id,
        msid: p.message_stream_id,
        ts: p.timestamp.value,
        data: p.data.to_vec(),
    }
}

/// Feed one piece to the library deserializer and drain it the documented way
/// (`get_next_message(&[])` until `None`).  `on_msg` is called for each message as it is
/// returned, before the next call, so a caller can apply chunk-size changes in time.
pub fn lib_feed<F: FnMut(&mut ChunkDeserializer, &Msg)>(
    d: &mut ChunkDeserializer,
    piece: &[u8],
    out: &mut Vec<Msg>,
    mut on_msg: F,
) -> Result<(), String> {
    let mut input: &[u8] = piece;
    loop {
        match d.get_next_message(input) {
            Ok(Some(p)) => {
                let m = from_payload(&p);
                on_msg(d, &m);
                out.push(m);
            }
            Ok(None) => return Ok(()),
            Err(e) => return Err(format!("{:?}", e)),
        }
        input = &[];
    }
}
