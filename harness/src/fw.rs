//! Framework: check trait, per-case output, worker loop (in-process monitors) and the protocol
//! the worker speaks to the supervisor.  See DESIGN 2.2 - 2.6.

use crate::alloc;
use crate::rng::Rng;
use serde_json::{json, Value};
use std::cell::RefCell;
use std::collections::{HashMap, HashSet};
use std::io::Write;
use std::panic::{self, AssertUnwindSafe};
use std::sync::atomic::{AtomicBool, AtomicU64, Ordering};
use std::time::Instant;

#[derive(Clone, Copy, PartialEq, Eq, Debug)]
pub enum Tier {
    Quick,
    Thorough,
}

impl Tier {
    pub fn name(self) -> &'static str {
        match self {
            Tier::Quick => "quick",
            Tier::Thorough => "thorough",
        }
    }
    pub fn parse(s: &str) -> Option<Tier> {
        match s {
            "quick" => Some(Tier::Quick),
            "thorough" => Some(Tier::Thorough),
            _ => None,
        }
    }
    pub fn pick<T>(self, quick: T, thorough: T) -> T {
        match self {
            Tier::Quick => quick,
            Tier::Thorough => thorough,
        }
    }
}

#[derive(Clone, Debug)]
pub struct Plan {
    /// number of cases (work units) in this tier
    pub cases: u64,
    /// cases with index below this are the enumerated / mandatory part: never skipped by the deadline
    pub mandatory: u64,
    /// soft wall-clock budget per worker: no new case is started after it (skipped cases are reported)
    pub deadline_s: f64,
    /// CPU-time budget of one case; exceeding it is the "hang" event
    pub cpu_budget_s: f64,
    pub workers: usize,
    /// live-bytes ceiling per worker process
    pub mem_ceiling: usize,
}

impl Plan {
    pub fn new(cases: u64, deadline_s: f64) -> Plan {
        Plan {
            cases,
            mandatory: 0,
            deadline_s,
            cpu_budget_s: 20.0,
            workers: 16,
            mem_ceiling: 3 << 30,
        }
    }
}

#[derive(Clone, Debug)]
pub struct Violation {
    pub sig: String,
    pub detail: Value,
}

/// What a case reports.  Counters are summed, maxes are maxed, shapes are unioned over the run.
#[derive(Default)]
pub struct Out {
    pub evals: u64,
    pub counters: HashMap<String, u64>,
    pub maxes: HashMap<String, u64>,
    pub shapes: Vec<u64>,
    pub samples: Vec<Value>,
    pub violations: Vec<Violation>,
    pub want_samples: usize,
    pub verbose: bool,
}

impl Out {
    pub fn eval(&mut self, n: u64) {
        self.evals += n;
    }
    pub fn count(&mut self, key: &str, n: u64) {
        if let Some(v) = self.counters.get_mut(key) {
            *v += n;
        } else {
            self.counters.insert(key.to_string(), n);
        }
    }
    pub fn maxv(&mut self, key: &str, v: u64) {
        if let Some(m) = self.maxes.get_mut(key) {
            if v > *m {
                *m = v;
            }
        } else {
            self.maxes.insert(key.to_string(), v);
        }
    }
    /// Record the shape signature of a NON-TRIVIAL case (trivial ones are not recorded).
    pub fn shape(&mut self, h: u64) {
        self.shapes.push(h);
    }
    pub fn sample<F: FnOnce() -> Value>(&mut self, f: F) {
        if self.samples.len() < self.want_samples {
            // evidence files stay readable: a sample that renders to more than 64 KiB is kept as its
            // first 4,000 characters
            let v = f();
            let text = v.to_string();
            if text.len() > 65_536 {
                let head: String = text.chars().take(4_000).collect();
                self.samples.push(serde_json::json!({"sample_abbreviated": true, "rendered_bytes": text.len(), "begins": head}));
            } else {
                self.samples.push(v);
            }
        }
    }
    pub fn violation(&mut self, sig: &str, detail: Value) {
        // at most a few per signature per case: the supervisor deduplicates anyway
        if self.violations.iter().filter(|v| v.sig == sig).count() < 2 {
            self.violations.push(Violation {
                sig: sig.to_string(),
                detail,
            });
        }
        self.count("violations_raw", 1);
    }
}

pub trait Check: Sync {
    fn id(&self) -> &'static str;
    fn plan(&self, tier: Tier) -> Plan;
    /// Reference self-tests; an Err is a harness error (exit 3), never a verdict on the library.
    fn selftest(&self) -> Result<(), String> {
        Ok(())
    }
    fn run_case(&self, tier: Tier, k: u64, rng: &mut Rng, out: &mut Out);
    /// How cases are generated and what makes one distinct / non-trivial.
    fn rule(&self) -> String;
    fn assumptions(&self) -> Vec<String>;
    /// Minimum-observation thresholds: names of counters that must be non-zero for a pass.
    fn required_counters(&self, _tier: Tier) -> Vec<String> {
        Vec::new()
    }
    /// Observations that depend on a POLICY of the library (which header formats it chooses,
    /// whether it decodes truncated arrays leniently ...): reported when missing, never affect the
    /// exit code - a correct library with a different policy must not make a check fail.
    fn soft_counters(&self, _tier: Tier) -> Vec<String> {
        Vec::new()
    }
    /// true when the mandatory part enumerates a finite sub-space completely in this tier
    fn exhaustive_part(&self, _tier: Tier) -> Option<String> {
        None
    }
    /// Signature assigned to a case whose worker died (by exit code/signal and stderr tail).
    fn death_signature(&self, how: &str) -> String {
        format!("process-death:{}", how)
    }
}

// ---------------------------------------------------------------------------------------------
// panic monitor

thread_local! {
    static LAST_PANIC: RefCell<Option<(String, String)>> = RefCell::new(None);
}
static QUIET_PANICS: AtomicBool = AtomicBool::new(true);

pub fn install_panic_hook() {
    panic::set_hook(Box::new(|info| {
        let msg = if let Some(s) = info.payload().downcast_ref::<&str>() {
            s.to_string()
        } else if let Some(s) = info.payload().downcast_ref::<String>() {
            s.clone()
        } else {
            "<non-string panic payload>".to_string()
        };
        let mut loc = match info.location() {
            Some(l) => format!("{}:{}", l.file(), l.line()),
            None => "<unknown>".to_string(),
        };
        if !cfg!(miri) && !loc.contains("/repo/") && !loc.contains("/verif/") && !loc.starts_with("src/") {
            // the panic was raised inside std/core or a dependency: attribute it to the first
            // frame inside the repository (what a sanitizer report calls the first in-repo frame)
            let bt = std::backtrace::Backtrace::force_capture().to_string();
            for line in bt.lines() {
                let line = line.trim();
                if let Some(rest) = line.strip_prefix("at ") {
                    if rest.contains("/repo/") {
                        let mut parts = rest.rsplitn(3, ':');
                        let _col = parts.next();
                        let ln = parts.next().unwrap_or("0");
                        let file = parts.next().unwrap_or(rest);
                        loc = format!("{}:{} (raised in {})", file, ln, loc);
                        break;
                    }
                }
            }
        }
        if !QUIET_PANICS.load(Ordering::Relaxed) {
            eprintln!("PANIC at {}: {}", loc, msg);
        }
        LAST_PANIC.with(|p| *p.borrow_mut() = Some((loc, msg)));
    }));
}

pub fn set_quiet_panics(q: bool) {
    QUIET_PANICS.store(q, Ordering::Relaxed);
}

pub fn take_last_panic() -> Option<(String, String)> {
    LAST_PANIC.with(|p| p.borrow_mut().take())
}

/// Signature of a panic: file (without line) + message with digits collapsed.
pub fn panic_signature(loc: &str, msg: &str) -> String {
    let loc = loc.split(" (raised in ").next().unwrap_or(loc);
    let file = loc.rsplit_once(':').map(|x| x.0).unwrap_or(loc);
    // keep only the path below the repository / registry root
    let file = if let Some(i) = file.find("/repo/") {
        &file[i + 6..]
    } else if let Some(i) = file.find("/registry/src/") {
        let rest = &file[i + 14..];
        rest.split_once('/').map(|x| x.1).unwrap_or(rest)
    } else {
        file
    };
    let mut m = String::new();
    let mut in_digits = false;
    for c in msg.chars() {
        if c.is_ascii_digit() {
            if !in_digits {
                m.push('N');
            }
            in_digits = true;
        } else {
            in_digits = false;
            m.push(if c == ' ' { '_' } else { c });
        }
    }
    if m.len() > 90 {
        let mut cut = 90;
        while !m.is_char_boundary(cut) {
            cut -= 1;
        }
        m.truncate(cut);
    }
    format!("panic:{}:{}", file, m)
}

/// Run `f`, converting a panic into Err((location, message)).
pub fn guarded<T, F: FnOnce() -> T>(f: F) -> Result<T, (String, String)> {
    let _ = take_last_panic();
    match panic::catch_unwind(AssertUnwindSafe(f)) {
        Ok(v) => Ok(v),
        Err(_) => Err(take_last_panic()
            .unwrap_or(("<unknown>".to_string(), "<no panic record>".to_string()))),
    }
}

/// Run a library call under the panic monitor; a panic becomes a violation of `out` with the
/// panic signature and `ctx()` as witness.  Returns None if it panicked.
pub fn lib_call<T, F: FnOnce() -> T, C: FnOnce() -> Value>(
    out: &mut Out,
    what: &str,
    ctx: C,
    f: F,
) -> Option<T> {
    let m0 = crate::alloc::mark_call();
    let t0 = thread_cpu_ns();
    let r = guarded(f);
    let used = thread_cpu_ns().saturating_sub(t0);
    // Memory that a call comes to hold has to be faulted in and written, and on a loaded machine
    // that alone costs seconds per GiB of the thread's own CPU time (observed: 4.8 s for the 1.2 GB
    // of the F15 case on a busy host, 1 s on an idle one).  How much a call may hold is the memory
    // oracle's question; the CPU limit gets an allowance of 16 ms per MiB by which live memory grew.
    out.maxv("max_thread_cpu_ms_of_one_monitored_library_call", used / 1_000_000);
    let grown_mib = (crate::alloc::peak_since_call(m0) >> 20) as u64;
    let limit = call_cpu_limit_ns().saturating_add(grown_mib.saturating_mul(16_000_000).saturating_mul(call_cpu_limit_ns() / 4_000_000_000));
    match r {
        Ok(v) => {
            // "Hang" has a second face: a call that does return, but only after seconds of CPU time
            // for a few bytes of input.  No monitored call of any workload needs more than a
            // fraction of a second of its own thread's CPU time (measured per thread, so machine
            // load does not enter); the per-case watchdog stays as the outer net.
            if used > limit {
                out.violation(
                    "library-call-burns-cpu-time-out-of-all-proportion",
                    json!({"call": what, "thread_cpu_seconds": used as f64 / 1e9, "limit_seconds": limit as f64 / 1e9, "live_memory_grown_mib": grown_mib, "context": ctx()}),
                );
            }
            Some(v)
        }
        Err((loc, msg)) => {
            let sig = panic_signature(&loc, &msg);
            out.violation(
                &sig,
                json!({"call": what, "panic_at": loc, "panic_message": msg, "context": ctx()}),
            );
            None
        }
    }
}

/// CPU time consumed by the calling thread (0 under Miri, which does not model it).
pub fn thread_cpu_ns() -> u64 {
    if cfg!(miri) {
        return 0;
    }
    let mut ts = libc::timespec { tv_sec: 0, tv_nsec: 0 };
    unsafe {
        libc::clock_gettime(libc::CLOCK_THREAD_CPUTIME_ID, &mut ts);
    }
    ts.tv_sec as u64 * 1_000_000_000 + ts.tv_nsec as u64
}

/// 4 CPU-seconds per monitored library call, times RMLV_SLOW_FACTOR (set by the valgrind slice).
pub fn call_cpu_limit_ns() -> u64 {
    static LIMIT: std::sync::OnceLock<u64> = std::sync::OnceLock::new();
    *LIMIT.get_or_init(|| {
        let f: u64 = std::env::var("RMLV_SLOW_FACTOR").ok().and_then(|x| x.parse().ok()).unwrap_or(1);
        4_000_000_000u64.saturating_mul(f.max(1))
    })
}

// ---------------------------------------------------------------------------------------------
// CPU-time watchdog (the "hang" monitor)

static CASE_OPEN: AtomicBool = AtomicBool::new(false);
static CASE_ID: AtomicU64 = AtomicU64::new(0);
static CASE_CPU_START_NS: AtomicU64 = AtomicU64::new(0);
static CPU_BUDGET_NS: AtomicU64 = AtomicU64::new(u64::MAX);

pub fn process_cpu_ns() -> u64 {
    let mut ts = libc::timespec {
        tv_sec: 0,
        tv_nsec: 0,
    };
    unsafe {
        libc::clock_gettime(libc::CLOCK_PROCESS_CPUTIME_ID, &mut ts);
    }
    ts.tv_sec as u64 * 1_000_000_000 + ts.tv_nsec as u64
}

fn start_watchdog() {
    std::thread::Builder::new()
        .name("cpu-watchdog".into())
        .spawn(|| loop {
            std::thread::sleep(std::time::Duration::from_millis(100));
            if CASE_OPEN.load(Ordering::SeqCst) {
                let used = process_cpu_ns().saturating_sub(CASE_CPU_START_NS.load(Ordering::SeqCst));
                if used > CPU_BUDGET_NS.load(Ordering::SeqCst) {
                    let k = CASE_ID.load(Ordering::SeqCst);
                    let line = format!("\nHANG {}\n", k);
                    unsafe {
                        libc::write(1, line.as_ptr() as *const libc::c_void, line.len());
                        libc::_exit(98);
                    }
                }
            }
        })
        .expect("spawn watchdog");
}

// ---------------------------------------------------------------------------------------------
// worker

pub struct WorkerArgs {
    pub tier: Tier,
    pub seed: u64,
    pub shard: u64,
    pub nshards: u64,
    pub start: u64,
    pub only_case: Option<u64>,
    pub verbose: bool,
    pub samples: usize,
}

fn flush(agg: &mut Out, seen: &mut HashSet<u64>, stdout: &mut std::io::StdoutLock) {
    let mut new_shapes: Vec<String> = Vec::new();
    for h in agg.shapes.drain(..) {
        if seen.len() < 1_000_000 && seen.insert(h) {
            new_shapes.push(format!("{:x}", h));
        }
    }
    let v = json!({
        "evals": agg.evals,
        "counters": agg.counters,
        "maxes": agg.maxes,
        "shapes": new_shapes,
        "samples": agg.samples,
    });
    agg.evals = 0;
    agg.counters.clear();
    agg.maxes.clear();
    agg.samples.clear();
    let _ = writeln!(stdout, "A {}", v);
    let _ = stdout.flush();
}

pub fn worker_main(check: &dyn Check, args: WorkerArgs) -> i32 {
    install_panic_hook();
    set_quiet_panics(!args.verbose);
    let plan = check.plan(args.tier);
    alloc::set_ceiling(plan.mem_ceiling);
    CPU_BUDGET_NS.store((plan.cpu_budget_s * 1e9) as u64, Ordering::SeqCst);
    start_watchdog();

    let stdout = std::io::stdout();
    let mut stdout = stdout.lock();
    let t0 = Instant::now();
    let mut agg = Out::default();
    agg.want_samples = args.samples;
    agg.verbose = args.verbose;
    let mut seen: HashSet<u64> = HashSet::new();
    let mut last_flush = Instant::now();
    let mut samples_left = args.samples;
    let mut skipped: u64 = 0;

    let mut k = if let Some(c) = args.only_case {
        c
    } else {
        // first case of this shard at or after `start`
        let mut k = args.start;
        while k % args.nshards != args.shard {
            k += 1;
        }
        k
    };
    while k < plan.cases {
        if args.only_case.is_none()
            && k >= plan.mandatory
            && t0.elapsed().as_secs_f64() > plan.deadline_s
        {
            // count what is being skipped and stop
            let mut kk = k;
            while kk < plan.cases {
                skipped += 1;
                kk += args.nshards;
            }
            break;
        }
        let _ = writeln!(stdout, "B {}", k);
        let _ = stdout.flush();
        CASE_ID.store(k, Ordering::SeqCst);
        CASE_CPU_START_NS.store(process_cpu_ns(), Ordering::SeqCst);
        CASE_OPEN.store(true, Ordering::SeqCst);

        let mut rng = Rng::for_case(args.seed, check.id(), k);
        agg.want_samples = samples_left;
        let before = agg.samples.len();
        let r = guarded(|| check.run_case(args.tier, k, &mut rng, &mut agg));
        CASE_OPEN.store(false, Ordering::SeqCst);
        samples_left = samples_left.saturating_sub(agg.samples.len() - before);
        if let Err((loc, msg)) = r {
            // A panic that escaped the per-call guards.  If it comes from the harness itself it is
            // a harness error, not a verdict.
            if loc.contains("/verif/") || loc.contains("harness/src") || loc.starts_with("src/") {
                let _ = writeln!(
                    stdout,
                    "H {}",
                    json!({"case": k, "harness_panic_at": loc, "message": msg})
                );
            } else {
                let sig = panic_signature(&loc, &msg);
                agg.violation(
                    &sig,
                    json!({"panic_at": loc, "panic_message": msg, "note": "escaped per-call guard"}),
                );
            }
        }
        for v in agg.violations.drain(..) {
            let _ = writeln!(
                stdout,
                "V {}",
                json!({"sig": v.sig, "case": k, "detail": v.detail})
            );
        }
        let _ = writeln!(stdout, "E {}", k);
        if last_flush.elapsed().as_millis() > 400 {
            flush(&mut agg, &mut seen, &mut stdout);
            last_flush = Instant::now();
        }
        if args.only_case.is_some() {
            break;
        }
        k += args.nshards;
    }
    if skipped > 0 {
        agg.count("cases_skipped_by_deadline", skipped);
    }
    flush(&mut agg, &mut seen, &mut stdout);
    let _ = writeln!(stdout, "DONE");
    let _ = stdout.flush();
    0
}
