//! Deterministic PRNG (splitmix64 -> xoshiro256**). No dependency on `rand`.

#[derive(Clone, Debug)]
pub struct Rng {
    s: [u64; 4],
}

pub fn splitmix64(x: &mut u64) -> u64 {
    *x = x.wrapping_add(0x9E3779B97F4A7C15);
    let mut z = *x;
    z = (z ^ (z >> 30)).wrapping_mul(0xBF58476D1CE4E5B9);
    z = (z ^ (z >> 27)).wrapping_mul(0x94D049BB133111EB);
    z ^ (z >> 31)
}

/// FNV-1a over bytes: used for shape signatures and seeds from strings.
pub fn fnv(bytes: &[u8]) -> u64 {
    let mut h: u64 = 0xcbf29ce484222325;
    for b in bytes {
        h ^= *b as u64;
        h = h.wrapping_mul(0x100000001b3);
    }
    h
}

pub fn mix(a: u64, b: u64) -> u64 {
    let mut x = a ^ b.rotate_left(32) ^ 0x5851F42D4C957F2D;
    let r = splitmix64(&mut x);
    r ^ splitmix64(&mut x)
}

impl Rng {
    pub fn new(seed: u64) -> Rng {
        let mut x = seed;
        let s = [
            splitmix64(&mut x),
            splitmix64(&mut x),
            splitmix64(&mut x),
            splitmix64(&mut x),
        ];
        Rng { s }
    }

    /// The generator for case `k` of check `id` under seed `seed`: independent of sharding.
    pub fn for_case(seed: u64, id: &str, k: u64) -> Rng {
        Rng::new(mix(mix(seed, fnv(id.as_bytes())), k))
    }

    pub fn next(&mut self) -> u64 {
        let result = self.s[1].wrapping_mul(5).rotate_left(7).wrapping_mul(9);
        let t = self.s[1] << 17;
        self.s[2] ^= self.s[0];
        self.s[3] ^= self.s[1];
        self.s[1] ^= self.s[2];
        self.s[0] ^= self.s[3];
        self.s[2] ^= t;
        self.s[3] = self.s[3].rotate_left(45);
        result
    }

    pub fn u32(&mut self) -> u32 {
        (self.next() >> 32) as u32
    }

    pub fn u8(&mut self) -> u8 {
        (self.next() >> 56) as u8
    }

    /// uniform in 0..n (n > 0)
    pub fn below(&mut self, n: u64) -> u64 {
        debug_assert!(n > 0);
        // multiply-shift; bias negligible for our n
        ((self.next() as u128 * n as u128) >> 64) as u64
    }

    /// uniform in lo..=hi
    pub fn range(&mut self, lo: u64, hi: u64) -> u64 {
        debug_assert!(lo <= hi);
        if lo == 0 && hi == u64::MAX {
            return self.next();
        }
        lo + self.below(hi - lo + 1)
    }

    pub fn usize(&mut self, lo: usize, hi: usize) -> usize {
        self.range(lo as u64, hi as u64) as usize
    }

    pub fn chance(&mut self, num: u64, den: u64) -> bool {
        self.below(den) < num
    }

    pub fn coin(&mut self) -> bool {
        self.next() >> 63 == 1
    }

    pub fn pick<'a, T>(&mut self, xs: &'a [T]) -> &'a T {
        &xs[self.below(xs.len() as u64) as usize]
    }

    pub fn fill(&mut self, buf: &mut [u8]) {
        let mut i = 0;
        while i + 8 <= buf.len() {
            buf[i..i + 8].copy_from_slice(&self.next().to_le_bytes());
            i += 8;
        }
        if i < buf.len() {
            let v = self.next().to_le_bytes();
            let n = buf.len() - i;
            buf[i..].copy_from_slice(&v[..n]);
        }
    }

    pub fn bytes(&mut self, n: usize) -> Vec<u8> {
        let mut v = vec![0u8; n];
        self.fill(&mut v);
        v
    }

    /// random bytes with a random length in lo..=hi
    pub fn bytes_in(&mut self, lo: usize, hi: usize) -> Vec<u8> {
        let n = self.usize(lo, hi);
        self.bytes(n)
    }

    /// With probability 1/4 overwrite the first bytes with what real FLV media starts with
    /// (AVC/AAC sequence headers and frames): code that looks into media payloads keys on these.
    pub fn flv_prefix(&mut self, type_id: u8, data: &mut [u8]) {
        if data.len() < 2 || !self.chance(1, 4) {
            return;
        }
        let p: [u8; 2] = match type_id {
            9 => *self.pick(&[[0x17, 0x00], [0x17, 0x01], [0x27, 0x01], [0x17, 0x02], [0x12, 0x00], [0x32, 0x00], [0x22, 0x00], [0x37, 0x01], [0x47, 0x01], [0x57, 0x00], [0x1C, 0x00], [0x2C, 0x01]]),
            8 => *self.pick(&[[0xAF, 0x00], [0xAF, 0x01], [0x2F, 0x00], [0xAE, 0x00]]),
            _ => *self.pick(&[[0x17, 0x00], [0xAF, 0x00], [0x02, 0x00]]),
        };
        data[0] = p[0];
        data[1] = p[1];
    }

    /// With probability 1/5 append characters outside ASCII (2-, 3- and 4-byte UTF-8): lengths on
    /// the wire are byte counts, not character counts.
    pub fn spice(&mut self, s: String) -> String {
        if self.chance(1, 12) {
            // decorations players and servers know (container prefixes, extensions, instance
            // names, query strings): a name is a name, byte for byte
            let d = *self.pick(&["mp4:", "flv:", "mp3:", "MP4:", "_definst_/", "@", "rtmp://h/a/"]);
            return format!("{}{}", d, s);
        }
        if self.chance(1, 12) {
            let d = *self.pick(&[".flv", ".mp4", ".f4v", "?auth=1", "/_definst_", " ", "#x"]);
            return format!("{}{}", s, d);
        }
        if self.chance(1, 5) {
            format!("{}{}", s, self.pick(&["\u{e9}", "\u{4e2d}\u{6587}", "\u{1f600}", "\u{df} x", "\u{e9}\u{4e2d}\u{1f600}"]))
        } else {
            s
        }
    }

    pub fn shuffle<T>(&mut self, xs: &mut [T]) {
        for i in (1..xs.len()).rev() {
            let j = self.below(i as u64 + 1) as usize;
            xs.swap(i, j);
        }
    }

    /// A u32 drawn from the boundary-biased mixture described in DESIGN 2.7.
    pub fn u32_boundary(&mut self) -> u32 {
        const B: [u32; 30] = [
            0,
            1,
            2,
            127,
            128,
            129,
            255,
            256,
            65535,
            65536,
            0xFFFFFE,
            0xFFFFFF,
            0x1000000,
            0x1000001,
            0x1FFFFFE,
            0x7FFFFFFE,
            0x7FFFFFFF,
            0x80000000,
            0x80000001,
            0xFFFFFFFD,
            0xFFFFFFFE,
            0xFFFFFFFF,
            16777214,
            16777216,
            4096,
            4095,
            4097,
            1000,
            40,
            33,
        ];
        match self.below(10) {
            0..=4 => *self.pick(&B),
            5 => {
                // near a boundary
                let b = *self.pick(&B);
                let d = self.below(5) as u32;
                if self.coin() {
                    b.wrapping_add(d)
                } else {
                    b.wrapping_sub(d)
                }
            }
            6 => self.below(1 << 16) as u32,
            7 => self.below(1 << 25) as u32,
            _ => self.u32(),
        }
    }
}

/// A partition of `len` bytes into consecutive piece lengths (each >= 0, sum == len).
pub fn partition(rng: &mut Rng, len: usize, kind: u32) -> Vec<usize> {
    let mut out = Vec::new();
    if len == 0 {
        return vec![0];
    }
    match kind % 6 {
        0 => out.push(len), // whole
        1 => {
            // byte by byte (capped: beyond 4096 bytes continue with larger pieces)
            let n = len.min(4096);
            out.extend(std::iter::repeat(1).take(n));
            let mut rest = len - n;
            while rest > 0 {
                let p = rng.usize(1, rest.min(65536));
                out.push(p);
                rest -= p;
            }
        }
        2 => {
            // small random pieces
            let mut rest = len;
            let mut pieces = 0;
            while rest > 0 {
                let cap = if pieces > 3000 { rest } else { rest.min(17) };
                let p = rng.usize(1, cap);
                out.push(p);
                rest -= p;
                pieces += 1;
            }
        }
        3 => {
            // mixed sizes, with empty calls sprinkled in
            let mut rest = len;
            let mut pieces = 0;
            while rest > 0 {
                if rng.chance(1, 8) {
                    out.push(0);
                    continue;
                }
                let cap = match rng.below(4) {
                    0 => 1,
                    1 => 16,
                    2 => 300,
                    _ => 70000,
                };
                let cap = if pieces > 3000 { rest } else { rest.min(cap) };
                let p = rng.usize(1, cap);
                out.push(p);
                rest -= p;
                pieces += 1;
            }
        }
        4 => {
            // two pieces at a random cut
            let c = rng.usize(0, len);
            out.push(c);
            out.push(len - c);
        }
        _ => {
            // a handful of large pieces
            let n = rng.usize(2, 8);
            let mut cuts: Vec<usize> = (0..n - 1).map(|_| rng.usize(0, len)).collect();
            cuts.sort();
            let mut prev = 0;
            for c in cuts {
                out.push(c - prev);
                prev = c;
            }
            out.push(len - prev);
        }
    }
    out
}

/// a partition of a random kind
pub fn partition_any(rng: &mut Rng, len: usize) -> Vec<usize> {
    let kind = rng.below(6) as u32;
    partition(rng, len, kind)
}

pub fn hex(bytes: &[u8]) -> String {
    let mut s = String::with_capacity(bytes.len() * 2);
    for b in bytes {
        s.push_str(&format!("{:02x}", b));
    }
    s
}

/// hex with an elision for long inputs (evidence/replay readability)
pub fn hex_short(bytes: &[u8], max: usize) -> String {
    if bytes.len() <= max {
        hex(bytes)
    } else {
        format!(
            "{}..({} bytes total)..{}",
            hex(&bytes[..max / 2]),
            bytes.len(),
            hex(&bytes[bytes.len() - max / 2..])
        )
    }
}

pub fn unhex(s: &str) -> Option<Vec<u8>> {
    if s.len() % 2 != 0 {
        return None;
    }
    let b = s.as_bytes();
    let mut out = Vec::with_capacity(s.len() / 2);
    for i in (0..b.len()).step_by(2) {
        let h = (b[i] as char).to_digit(16)?;
        let l = (b[i + 1] as char).to_digit(16)?;
        out.push((h * 16 + l) as u8);
    }
    Some(out)
}
