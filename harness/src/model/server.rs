//! Executable reference state machine of the server session, written from the text of property
//! C09 (not from the implementation).  It consumes resolved operations together with what the
//! library made observable for them and reports the first divergence.

use crate::refs::amf::V;
use crate::refs::msg::RMsg;
use std::collections::{BTreeMap, BTreeSet};

#[derive(Clone, Debug, PartialEq)]
pub enum Req {
    Connect { app: String, txid_bits: u64 },
    Publish { key: String, mode: String, stream: u32 },
    Play { key: String, stream: u32 },
}

#[derive(Clone, Debug, PartialEq)]
pub enum Stream {
    Created,
    Publishing(String),
    Playing(String),
    Completed,
}

/// Operations with every choice resolved to concrete values.
#[derive(Clone, Debug)]
pub enum Op {
    // peer messages
    Connect { txid: f64, app: Option<String>, object: bool },
    CreateStream { txid: f64 },
    Publish { msid: u32, txid: f64, key: Option<String>, mode: Option<String>, nargs: usize },
    Play { msid: u32, txid: f64, key: Option<String>, nargs: usize },
    /// `id`: the stream the command names when its argument is an exact u32 (None: no argument, or
    /// a number that names no stream); `raw`: the number actually sent when it is not `id`
    /// `on`: the message stream the command itself travels on when that is not the stream it names
    CloseStream { id: Option<u32>, raw: Option<f64>, on: Option<u32> },
    DeleteStream { id: Option<u32>, raw: Option<f64>, on: Option<u32> },
    Audio { msid: u32, ts: u32, data: Vec<u8> },
    Video { msid: u32, ts: u32, data: Vec<u8> },
    SetDataFrame { msid: u32, well_formed: bool },
    OtherData { msid: u32 },
    /// ping request; `msid`: the message stream id its chunk header names (0 is usual)
    Ping { ts: u32, msid: u32 },
    /// protocol-control / user-control message other than a ping request, carrying number `n`:
    /// kind 0 Abort, 1 Acknowledgement, 2 SetPeerBandwidth, 3-7 user control StreamBegin, StreamEof,
    /// StreamDry, SetBufferLength, StreamIsRecorded, 8 PingResponse.  None of them is part of the
    /// request/stream state machine, whatever number they carry.
    Control { kind: u8, n: u32, msid: u32 },
    UnknownCommand,
    // application calls
    Accept { id: u32 },
    Reject { id: u32 },
    SendAudio { stream: u32, ts: u32, data: Vec<u8>, drop: bool },
    SendVideo { stream: u32, ts: u32, data: Vec<u8>, drop: bool },
    SendMetadata { stream: u32 },
    FinishPlaying { stream: u32 },
    PingRequest,
}

/// The property-relevant events, in a neutral form.
#[derive(Clone, Debug, PartialEq)]
pub enum Ev {
    ConnectionRequested { id: u32, app: String },
    PublishRequested { id: u32, app: String, key: String, mode: String },
    PlayRequested { id: u32, app: String, key: String, stream: u32 },
    PublishFinished { app: String, key: String },
    PlayFinished { app: String, key: String },
    Metadata { app: String, key: String },
    Audio { app: String, key: String, ts: u32, data: Vec<u8> },
    Video { app: String, key: String, ts: u32, data: Vec<u8> },
}

/// Outbound messages the statement talks about, decoded independently.
#[derive(Clone, Debug, PartialEq)]
pub enum Tag {
    Result { txid_bits: u64, stream_id: Option<u64>, msid: u32 },
    Error { txid_bits: u64, msid: u32 },
    Status { code: String, msid: u32 },
    StreamBegin { stream: u32 },
    PingResponse { ts: u32 },
    PingRequest,
    Media { type_id: u8, msid: u32, ts: u32, data: Vec<u8> },
    Metadata { msid: u32 },
}

pub fn tags_of(msgs: &[(u32, u32, RMsg)]) -> Vec<Tag> {
    let mut out = Vec::new();
    for (msid, ts, m) in msgs {
        match m {
            RMsg::Command { name, txid, args, .. } => {
                if name == "_result" {
                    let sid = match args.get(0) {
                        Some(V::Num(b)) => Some(*b),
                        _ => None,
                    };
                    out.push(Tag::Result { txid_bits: *txid, stream_id: sid, msid: *msid });
                } else if name == "_error" {
                    out.push(Tag::Error { txid_bits: *txid, msid: *msid });
                } else if name == "onStatus" {
                    let mut code = String::new();
                    if let Some(V::Obj(p)) = args.get(0) {
                        if let Some((_, V::Str(c))) = p.iter().find(|x| x.0 == "code") {
                            code = c.clone();
                        }
                    }
                    out.push(Tag::Status { code, msid: *msid });
                }
            }
            RMsg::UserControl(0, f) => out.push(Tag::StreamBegin { stream: f[0] }),
            RMsg::UserControl(7, f) => out.push(Tag::PingResponse { ts: f[0] }),
            RMsg::UserControl(6, _) => out.push(Tag::PingRequest),
            RMsg::Audio(d) => out.push(Tag::Media { type_id: 8, msid: *msid, ts: *ts, data: d.clone() }),
            RMsg::Video(d) => out.push(Tag::Media { type_id: 9, msid: *msid, ts: *ts, data: d.clone() }),
            RMsg::Data(vs) => {
                if let Some(V::Str(s)) = vs.get(0) {
                    if s == "onMetaData" {
                        out.push(Tag::Metadata { msid: *msid });
                    }
                }
            }
            _ => {}
        }
    }
    out
}

/// What the library made observable for one operation.
pub struct Obs {
    pub ok: bool,
    pub error: String,
    pub events: Vec<Ev>,
    pub tags: Vec<Tag>,
}

#[derive(Debug)]
pub enum Verdict {
    Agree,
    /// (clause, explanation)
    Diverge(String, String),
    /// behaviour on a corner the statement is silent about differs from the recorded one
    UnspecifiedChanged(String),
    /// the session returned an error the model expected: the history ends here
    EndedByExpectedError,
}

pub struct Model {
    pub connected_app: Option<String>,
    pub outstanding: BTreeMap<u32, Req>,
    pub seen_request_ids: BTreeSet<u32>,
    pub consumed_request_ids: Vec<u32>,
    pub streams: BTreeMap<u32, Stream>,
    pub issued_streams: BTreeSet<u32>,
    pub deleted_streams: Vec<u32>,
    pub corners: Vec<&'static str>,
}

fn normalise_app(app: &str) -> String {
    app.strip_suffix('/').unwrap_or(app).to_string()
}

impl Model {
    pub fn new() -> Model {
        Model {
            connected_app: None,
            outstanding: BTreeMap::new(),
            seen_request_ids: BTreeSet::new(),
            consumed_request_ids: Vec::new(),
            streams: BTreeMap::new(),
            issued_streams: BTreeSet::new(),
            deleted_streams: Vec::new(),
            corners: Vec::new(),
        }
    }

    pub fn state_class(&self) -> String {
        // which stream states exist (a subset of c=created, P=publishing, L=playing, x=completed)
        // (a coverage label only: with thousands of streams the oldest and newest 256 are looked at)
        let mut seen = [false; 4];
        for s in self.streams.values().take(256).chain(self.streams.values().rev().take(256)) {
            seen[match s {
                Stream::Created => 0,
                Stream::Publishing(_) => 1,
                Stream::Playing(_) => 2,
                Stream::Completed => 3,
            }] = true;
        }
        let mut flags = String::new();
        for (c, f) in [('c', 0), ('P', 1), ('L', 2), ('x', 3)] {
            if seen[f] {
                flags.push(c);
            }
        }
        format!(
            "{}|out{}|{}",
            if self.connected_app.is_some() { "conn" } else { "new" },
            self.outstanding.len().min(2),
            flags
        )
    }

    fn fresh_id(&mut self, id: u32) -> Result<(), String> {
        if !self.seen_request_ids.insert(id) {
            return Err(format!("request id {} was already used in this history", id));
        }
        Ok(())
    }

    /// Advance by one operation and compare with the library's observation.
    pub fn step(&mut self, op: &Op, obs: &Obs) -> Verdict {
        let diverge = |clause: &str, why: String| Verdict::Diverge(clause.to_string(), why);
        // expectation assembled per operation
        let mut want_ok = true;
        let mut want_events: Vec<Ev> = Vec::new();
        // required tags (each exactly once); kinds listed in `exclusive` may not appear otherwise
        let mut want_tags: Vec<Tag> = Vec::new();
        let mut want_error_reply = false; // at least one `_error` and no request event
        let mut corner: Option<&'static str> = None;
        // ids the library reports are learned from the observation (freshness is checked)
        match op {
            Op::Connect { txid, app, object } => {
                match (object, app) {
                    (true, Some(app)) => {
                        // request surfaced with a fresh id; the id itself is chosen by the library
                        let surfaced_app: Option<String> = obs.events.iter().find_map(|e| if let Ev::ConnectionRequested { app, .. } = e { Some(app.clone()) } else { None });
                        let id = match obs.events.iter().find_map(|e| if let Ev::ConnectionRequested { id, .. } = e { Some(*id) } else { None }) {
                            Some(id) => id,
                            None => {
                                if !obs.ok {
                                    return diverge("connect-not-surfaced", format!("session error {}", obs.error));
                                }
                                return diverge("connect-not-surfaced", "no ConnectionRequested event".into());
                            }
                        };
                        if let Err(e) = self.fresh_id(id) {
                            return diverge("request-id-not-fresh", e);
                        }
                        // "the accepted application name" is the one the session surfaces with the
                        // request: how it tidies the requested name at its ends (a trailing slash
                        // today) is its business, as long as it is the requested name otherwise
                        let trim = |x: &str| x.trim().trim_matches('/').trim().to_string();
                        let napp = match surfaced_app {
                            Some(a) if trim(&a) == trim(app) => a,
                            _ => normalise_app(app),
                        };
                        want_events.push(Ev::ConnectionRequested { id, app: napp.clone() });
                        self.outstanding.insert(id, Req::Connect { app: napp, txid_bits: txid.to_bits() });
                    }
                    _ => {
                        // no usable application name: the session reports an error
                        want_ok = false;
                    }
                }
            }
            Op::CreateStream { txid } => {
                let got = obs.tags.iter().find_map(|t| if let Tag::Result { txid_bits, stream_id, .. } = t { Some((*txid_bits, *stream_id)) } else { None });
                match got {
                    Some((tb, Some(sid_bits))) => {
                        if tb != txid.to_bits() {
                            return diverge("create-stream-result-under-wrong-transaction-id", format!("caller used {}, result carries {}", txid, f64::from_bits(tb)));
                        }
                        let sid = f64::from_bits(sid_bits);
                        if !(sid >= 0.0 && sid.fract() == 0.0 && sid <= u32::MAX as f64) {
                            return diverge("create-stream-result-without-usable-stream-id", format!("stream id {}", sid));
                        }
                        let sid = sid as u32;
                        if !self.issued_streams.insert(sid) {
                            return diverge("stream-id-issued-twice", format!("stream id {} was issued before in this history", sid));
                        }
                        self.streams.insert(sid, Stream::Created);
                        want_tags.push(Tag::Result { txid_bits: tb, stream_id: Some(sid_bits), msid: 0 });
                    }
                    _ => return diverge("create-stream-not-answered", format!("no _result with a stream id (ok={}, error={})", obs.ok, obs.error)),
                }
            }
            Op::Publish { msid, key, mode, nargs, .. } => {
                let mode_ok = mode.as_ref().map(|m| ["live", "record", "append"].contains(&m.to_lowercase().as_str())).unwrap_or(false);
                let well_formed = *nargs >= 2 && key.is_some() && mode_ok;
                if !well_formed || self.connected_app.is_none() {
                    want_error_reply = true;
                } else {
                    let id = match obs.events.iter().find_map(|e| if let Ev::PublishRequested { id, .. } = e { Some(*id) } else { None }) {
                        Some(id) => id,
                        None => return diverge("publish-not-surfaced-although-connected", format!("ok={}, error={}, events={:?}", obs.ok, obs.error, obs.events)),
                    };
                    if let Err(e) = self.fresh_id(id) {
                        return diverge("request-id-not-fresh", e);
                    }
                    let mode_name = match mode.as_ref().unwrap().to_lowercase().as_str() {
                        "live" => "Live",
                        "record" => "Record",
                        _ => "Append",
                    }
                    .to_string();
                    want_events.push(Ev::PublishRequested { id, app: self.connected_app.clone().unwrap(), key: key.clone().unwrap(), mode: mode_name.clone() });
                    self.outstanding.insert(id, Req::Publish { key: key.clone().unwrap(), mode: mode_name, stream: *msid });
                }
            }
            Op::Play { msid, key, nargs, .. } => {
                let well_formed = *nargs >= 1 && key.is_some();
                if !well_formed || self.connected_app.is_none() {
                    want_error_reply = true;
                } else {
                    let id = match obs.events.iter().find_map(|e| if let Ev::PlayRequested { id, .. } = e { Some(*id) } else { None }) {
                        Some(id) => id,
                        None => return diverge("play-not-surfaced-although-connected", format!("ok={}, error={}, events={:?}", obs.ok, obs.error, obs.events)),
                    };
                    if let Err(e) = self.fresh_id(id) {
                        return diverge("request-id-not-fresh", e);
                    }
                    want_events.push(Ev::PlayRequested { id, app: self.connected_app.clone().unwrap(), key: key.clone().unwrap(), stream: *msid });
                    self.outstanding.insert(id, Req::Play { key: key.clone().unwrap(), stream: *msid });
                }
            }
            Op::CloseStream { id, .. } | Op::DeleteStream { id, .. } => {
                let delete = matches!(op, Op::DeleteStream { .. });
                if let (Some(app), Some(id)) = (self.connected_app.clone(), id) {
                    if let Some(st) = self.streams.get(id).cloned() {
                        match st {
                            Stream::Publishing(key) => want_events.push(Ev::PublishFinished { app, key }),
                            Stream::Playing(key) => want_events.push(Ev::PlayFinished { app, key }),
                            _ => {}
                        }
                        if delete {
                            self.streams.remove(id);
                            self.deleted_streams.push(*id);
                        } else {
                            self.streams.insert(*id, Stream::Created);
                        }
                    }
                } else if let (None, Some(id)) = (&self.connected_app, id) {
                    // before any accepted connection nothing can be publishing or playing;
                    // whether the stream entry itself survives is not observable
                    if self.streams.contains_key(id) {
                        corner = Some("close-or-delete-before-connection-accepted");
                    }
                }
            }
            Op::Audio { msid, ts, data } | Op::Video { msid, ts, data } => {
                if let (Some(app), Some(Stream::Publishing(key))) = (self.connected_app.clone(), self.streams.get(msid)) {
                    if matches!(op, Op::Audio { .. }) {
                        want_events.push(Ev::Audio { app, key: key.clone(), ts: *ts, data: data.clone() });
                    } else {
                        want_events.push(Ev::Video { app, key: key.clone(), ts: *ts, data: data.clone() });
                    }
                }
            }
            Op::SetDataFrame { msid, well_formed } => {
                if *well_formed {
                    if let (Some(app), Some(Stream::Publishing(key))) = (self.connected_app.clone(), self.streams.get(msid)) {
                        want_events.push(Ev::Metadata { app, key: key.clone() });
                    }
                }
            }
            Op::OtherData { .. } | Op::UnknownCommand | Op::Control { .. } => {}
            Op::Ping { ts, .. } => want_tags.push(Tag::PingResponse { ts: *ts }),
            Op::Accept { id } => match self.outstanding.remove(id) {
                None => want_ok = false,
                Some(req) => {
                    self.consumed_request_ids.push(*id);
                    match req {
                        Req::Connect { app, txid_bits } => {
                            self.connected_app = Some(app);
                            want_tags.push(Tag::Result { txid_bits, stream_id: None, msid: 0 });
                        }
                        Req::Publish { key, stream, .. } => {
                            if self.streams.contains_key(&stream) {
                                self.streams.insert(stream, Stream::Publishing(key));
                                want_tags.push(Tag::Status { code: "NetStream.Publish.Start".into(), msid: stream });
                            } else {
                                // the stream was never created or was deleted meanwhile: statement is silent
                                corner = Some("accept-for-missing-stream");
                                want_ok = false;
                            }
                        }
                        Req::Play { key, stream } => {
                            if self.streams.contains_key(&stream) {
                                self.streams.insert(stream, Stream::Playing(key));
                                want_tags.push(Tag::Status { code: "NetStream.Play.Start".into(), msid: stream });
                            } else {
                                corner = Some("accept-for-missing-stream");
                                want_ok = false;
                            }
                        }
                    }
                }
            },
            Op::Reject { id } => match self.outstanding.remove(id) {
                None => want_ok = false,
                Some(_) => {
                    self.consumed_request_ids.push(*id);
                    want_error_reply = true;
                }
            },
            Op::SendAudio { stream, ts, data, .. } => want_tags.push(Tag::Media { type_id: 8, msid: *stream, ts: *ts, data: data.clone() }),
            Op::SendVideo { stream, ts, data, .. } => want_tags.push(Tag::Media { type_id: 9, msid: *stream, ts: *ts, data: data.clone() }),
            Op::SendMetadata { stream } => want_tags.push(Tag::Metadata { msid: *stream }),
            Op::FinishPlaying { stream } => match self.streams.get(stream) {
                Some(Stream::Playing(_)) => {
                    self.streams.insert(*stream, Stream::Completed);
                    want_tags.push(Tag::Status { code: "NetStream.Play.Complete".into(), msid: *stream });
                }
                _ => want_ok = false,
            },
            Op::PingRequest => want_tags.push(Tag::PingRequest),
        }
        if let Some(c) = corner {
            self.corners.push(c);
        }

        // ---- compare
        if obs.ok != want_ok {
            let msg = format!("model expects {}, library returned {}{}", if want_ok { "Ok" } else { "Err" }, if obs.ok { "Ok" } else { "Err: " }, obs.error);
            if corner.is_some() {
                return Verdict::UnspecifiedChanged(msg);
            }
            return diverge(if want_ok { "unexpected-error" } else { "refusal-expected-but-accepted" }, msg);
        }
        if !obs.ok {
            // nothing is delivered with an error; for peer messages the history ends
            return match op {
                Op::Accept { .. } | Op::Reject { .. } | Op::FinishPlaying { .. } | Op::SendAudio { .. } | Op::SendVideo { .. } | Op::SendMetadata { .. } | Op::PingRequest => Verdict::Agree,
                _ => Verdict::EndedByExpectedError,
            };
        }
        if obs.events != want_events {
            let clause = match (obs.events.first(), want_events.first()) {
                (Some(Ev::Audio { .. }), None) | (Some(Ev::Video { .. }), None) | (Some(Ev::Metadata { .. }), None) => "media-event-for-stream-without-accepted-publish",
                (None, Some(Ev::Audio { .. })) | (None, Some(Ev::Video { .. })) | (None, Some(Ev::Metadata { .. })) => "media-event-missing-for-publishing-stream",
                (Some(Ev::PublishFinished { .. }), None) | (Some(Ev::PlayFinished { .. }), None) => "finished-event-without-matching-activity",
                (None, Some(Ev::PublishFinished { .. })) | (None, Some(Ev::PlayFinished { .. })) => "finished-event-missing",
                (Some(Ev::PublishRequested { .. }), None) | (Some(Ev::PlayRequested { .. }), None) => "request-surfaced-before-connection-accepted-or-malformed",
                _ => "events-differ",
            };
            return diverge(clause, format!("library raised {:?}, model expects {:?}", obs.events, want_events));
        }
        if want_error_reply {
            if !obs.tags.iter().any(|t| matches!(t, Tag::Error { .. })) {
                return diverge("refused-request-not-answered-with-an-error", format!("responses: {:?}", obs.tags));
            }
        }
        // required tags, each exactly once
        for w in want_tags.iter() {
            let n = obs.tags.iter().filter(|t| *t == w).count();
            if n != 1 {
                let clause = match w {
                    Tag::PingResponse { .. } => "ping-request-not-answered-with-same-timestamp",
                    Tag::Result { .. } => "result-missing-or-under-wrong-transaction-id",
                    Tag::Status { .. } => "status-for-accepted-request-missing-or-on-wrong-stream",
                    Tag::Media { .. } => "sent-media-not-emitted-as-given",
                    _ => "required-response-missing",
                };
                return diverge(clause, format!("expected exactly one {:?}, responses: {:?}", w, obs.tags.iter().map(|t| format!("{:?}", t).chars().take(120).collect::<String>()).collect::<Vec<_>>()));
            }
        }
        // kinds that may appear only when required (an answer to a command the statement does
        // not mention - unknown commands, other data - is the library's business)
        if matches!(op, Op::UnknownCommand | Op::OtherData { .. }) {
            return Verdict::Agree;
        }
        for t in obs.tags.iter() {
            let exclusive = match t {
                Tag::Result { .. } | Tag::PingResponse { .. } | Tag::PingRequest | Tag::Media { .. } => true,
                Tag::Error { .. } => !want_error_reply,
                Tag::Status { code, .. } => ["NetStream.Publish.Start", "NetStream.Play.Start", "NetStream.Play.Complete"].contains(&code.as_str()),
                _ => false,
            };
            let is_error_ok = matches!(t, Tag::Error { .. }) && want_error_reply;
            if exclusive && !is_error_ok && !want_tags.contains(t) {
                return diverge("unexpected-response", format!("{:?} not expected for {:?}", t, op).chars().take(300).collect());
            }
        }
        Verdict::Agree
    }
}
