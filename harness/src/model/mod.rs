pub mod client;
pub mod server;
