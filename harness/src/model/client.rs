//! Executable reference state machine of the client session, written from the text of property
//! C10.  Consumes resolved operations plus what the library made observable; reports the first
//! divergence.

use crate::refs::amf::V;
use crate::refs::msg::RMsg;
use std::collections::BTreeMap;

#[derive(Clone, Copy, Debug, PartialEq, Eq, PartialOrd, Ord)]
pub enum St {
    Disconnected,
    Connected,
    PlayRequested,
    Playing,
    PublishRequested,
    Publishing,
}

#[derive(Clone, Debug, PartialEq)]
pub enum Purpose {
    Connect,
    CreateForPlay { key: String },
    CreateForPublish { key: String, kind: String },
}

#[derive(Clone, Debug)]
pub enum Op {
    // application calls
    RequestConnection { app: String },
    RequestPlayback { key: String },
    RequestPublishing { key: String, kind: String },
    StopPlayback,
    StopPublishing,
    PublishMetadata,
    PublishVideo { ts: u32, data: Vec<u8>, drop: bool },
    PublishAudio { ts: u32, data: Vec<u8>, drop: bool },
    SendPing,
    // server messages
    Result { txid: f64, stream_id: Option<f64>, non_number: bool },
    Error { txid: f64 },
    /// `txid`: the transaction id field of the status command (0 is usual; a status is not an
    /// answer to a transaction, whatever number it carries)
    OnStatus { code: Option<String>, form: u8, msid: u32, txid: f64 },
    /// a command the workflow does not know (onBWDone, onFCPublish ...) carrying `txid`
    OtherCommand { txid: f64 },
    Audio { msid: u32, ts: u32, data: Vec<u8> },
    Video { msid: u32, ts: u32, data: Vec<u8> },
    OnMetaData { msid: u32 },
    /// ping request; `msid`: the message stream id its chunk header names (0 is usual)
    Ping { ts: u32, msid: u32 },
    /// Abort / SetPeerBandwidth / user-control events other than pings, carrying number `n` (none
    /// of them is part of the workflow, whatever number they carry)
    Control { kind: u8, n: u32, msid: u32 },
    PingResponse { ts: u32 },
    Ack { n: u32 },
    SetChunkSize { n: u32 },
    StreamBegin { id: u32 },
}

/// A transaction id names an issued transaction only if it is exactly that whole number: ids are
/// issued as whole numbers, so a fractional, negative, out-of-range or NaN id was never issued.
pub fn whole_u32(x: f64) -> Option<u32> {
    if x >= 0.0 && x < 4294967296.0 && x.fract() == 0.0 {
        Some(x as u32)
    } else {
        None
    }
}

#[derive(Clone, Debug, PartialEq)]
pub enum Ev {
    ConnectionAccepted,
    ConnectionRejected,
    PlaybackAccepted,
    PublishAccepted,
    Metadata,
    Video { ts: u32, data: Vec<u8> },
    Audio { ts: u32, data: Vec<u8> },
    UnknownTransaction { txid_bits: u64 },
    UnhandleableStatus { code: String },
    AckReceived { n: u32 },
    PingResponse { ts: u32 },
}

/// What the client put on the wire, decoded independently.
#[derive(Clone, Debug, PartialEq)]
pub enum Tag {
    /// command name, transaction id bits, message stream id, first string/number argument
    Command { name: String, txid_bits: u64, msid: u32, arg0: Option<String>, arg1: Option<String> },
    PingResponse { ts: u32 },
    PingRequest,
    SetBufferLength { stream: u32 },
    Media { type_id: u8, msid: u32, ts: u32, data: Vec<u8> },
    SetDataFrame { msid: u32 },
    Other(u8),
}

pub fn tags_of(msgs: &[(u32, u32, RMsg)]) -> Vec<Tag> {
    let mut out = Vec::new();
    let render = |v: Option<&V>| -> Option<String> {
        match v {
            Some(V::Str(s)) => Some(s.clone()),
            Some(V::Num(b)) => Some(format!("{}", f64::from_bits(*b))),
            _ => None,
        }
    };
    for (msid, ts, m) in msgs {
        match m {
            RMsg::Command { name, txid, args, obj } => {
                let arg0 = if name == "connect" {
                    match obj {
                        V::Obj(p) => p.iter().find(|x| x.0 == "app").and_then(|x| render(Some(&x.1))),
                        _ => None,
                    }
                } else {
                    render(args.get(0))
                };
                out.push(Tag::Command { name: name.clone(), txid_bits: *txid, msid: *msid, arg0, arg1: render(args.get(1)) });
            }
            RMsg::UserControl(7, f) => out.push(Tag::PingResponse { ts: f[0] }),
            RMsg::UserControl(6, _) => out.push(Tag::PingRequest),
            RMsg::UserControl(3, f) => out.push(Tag::SetBufferLength { stream: f[0] }),
            RMsg::Audio(d) => out.push(Tag::Media { type_id: 8, msid: *msid, ts: *ts, data: d.clone() }),
            RMsg::Video(d) => out.push(Tag::Media { type_id: 9, msid: *msid, ts: *ts, data: d.clone() }),
            RMsg::Data(vs) => {
                if let Some(V::Str(s)) = vs.get(0) {
                    if s == "@setDataFrame" {
                        out.push(Tag::SetDataFrame { msid: *msid });
                        continue;
                    }
                }
                out.push(Tag::Other(18));
            }
            RMsg::Ack(_) => {}
            other => out.push(Tag::Other(other.type_id())),
        }
    }
    out
}

pub struct Obs {
    pub ok: bool,
    pub error: String,
    pub events: Vec<Ev>,
    pub tags: Vec<Tag>,
    pub bytes_emitted: usize,
}

#[derive(Debug)]
pub enum Verdict {
    Agree,
    Diverge(String, String),
    EndedByExpectedError,
}

pub struct Model {
    pub st: St,
    pub outstanding: BTreeMap<u32, Purpose>,
    pub used_txids: std::collections::BTreeSet<u32>,
    pub answered_txids: Vec<u32>,
    pub active_stream: Option<u32>,
    pub corners: Vec<&'static str>,
}

impl Model {
    pub fn new() -> Model {
        Model { st: St::Disconnected, outstanding: BTreeMap::new(), used_txids: std::collections::BTreeSet::new(), answered_txids: vec![], active_stream: None, corners: vec![] }
    }

    pub fn state_class(&self) -> String {
        format!("{:?}|out{}|{}", self.st, self.outstanding.len().min(2), if self.active_stream.is_some() { "active" } else { "-" })
    }

    /// a request emitted a command with a transaction id chosen by the library: learn it, check freshness
    fn learn_txid(&mut self, tags: &[Tag], name: &str) -> Result<u32, String> {
        for t in tags {
            if let Tag::Command { name: n, txid_bits, .. } = t {
                if n == name {
                    let x = f64::from_bits(*txid_bits);
                    if !(x >= 0.0 && x.fract() == 0.0 && x < 4294967296.0) {
                        return Err(format!("{} carries unusable transaction id {}", name, x));
                    }
                    let id = x as u32;
                    if self.used_txids.contains(&id) {
                        return Err(format!("transaction id {} reused", id));
                    }
                    self.used_txids.insert(id);
                    return Ok(id);
                }
            }
        }
        Err(format!("no {} command emitted", name))
    }

    pub fn step(&mut self, op: &Op, obs: &Obs) -> Verdict {
        let diverge = |clause: &str, why: String| Verdict::Diverge(clause.to_string(), why);
        let mut want_ok = true;
        let mut want_events: Vec<Ev> = Vec::new();
        let mut want_tags: Vec<Tag> = Vec::new(); // exact list of commands / media / ping tags, in order
        let mut silent = false; // refusal: no bytes at all
        let app_call = matches!(
            op,
            Op::RequestConnection { .. } | Op::RequestPlayback { .. } | Op::RequestPublishing { .. } | Op::StopPlayback | Op::StopPublishing | Op::PublishMetadata | Op::PublishVideo { .. } | Op::PublishAudio { .. } | Op::SendPing
        );
        match op {
            Op::RequestConnection { app } => {
                if self.st == St::Disconnected && app.len() > 65_535 && !obs.ok && obs.bytes_emitted == 0 {
                    // a name AMF0 cannot express, refused without bytes: nothing was requested, so
                    // nothing is outstanding and no state may have changed (what follows is judged
                    // against a model that never saw this call)
                    want_ok = false;
                    silent = true;
                    self.corners.push("connect-refused-name-not-expressible");
                } else if self.st == St::Disconnected {
                    match self.learn_txid(&obs.tags, "connect") {
                        Ok(id) => {
                            self.outstanding.insert(id, Purpose::Connect);
                            want_tags.push(Tag::Command { name: "connect".into(), txid_bits: (id as f64).to_bits(), msid: 0, arg0: Some(app.clone()), arg1: None });
                        }
                        Err(e) => return diverge("connect-request-not-emitted-from-disconnected-state", format!("{} (ok={}, error={})", e, obs.ok, obs.error)),
                    }
                } else {
                    want_ok = false;
                    silent = true;
                }
            }
            Op::RequestPlayback { key } | Op::RequestPublishing { key, .. } => {
                if self.st == St::Connected {
                    match self.learn_txid(&obs.tags, "createStream") {
                        Ok(id) => {
                            let p = match op {
                                Op::RequestPlayback { .. } => Purpose::CreateForPlay { key: key.clone() },
                                Op::RequestPublishing { kind, .. } => Purpose::CreateForPublish { key: key.clone(), kind: kind.clone() },
                                _ => unreachable!(),
                            };
                            self.outstanding.insert(id, p);
                            want_tags.push(Tag::Command { name: "createStream".into(), txid_bits: (id as f64).to_bits(), msid: 0, arg0: None, arg1: None });
                        }
                        Err(e) => return diverge("play-or-publish-request-not-emitted-from-connected-state", format!("{} (ok={}, error={})", e, obs.ok, obs.error)),
                    }
                } else {
                    want_ok = false;
                    silent = true;
                }
            }
            Op::StopPlayback | Op::StopPublishing => {
                let applies = match op {
                    Op::StopPlayback => self.st == St::Playing || self.st == St::PlayRequested,
                    _ => self.st == St::Publishing || self.st == St::PublishRequested,
                };
                if applies {
                    self.st = St::Connected;
                    if let Some(id) = self.active_stream.take() {
                        want_tags.push(Tag::Command { name: "deleteStream".into(), txid_bits: 0f64.to_bits(), msid: id, arg0: Some(format!("{}", id as f64)), arg1: None });
                    }
                } else {
                    // nothing to stop: no bytes, no state change (an Ok with nothing in it)
                    silent = true;
                }
            }
            Op::PublishMetadata | Op::PublishVideo { .. } | Op::PublishAudio { .. } => {
                if self.st == St::Publishing && self.active_stream.is_some() {
                    let msid = self.active_stream.unwrap();
                    match op {
                        Op::PublishMetadata => want_tags.push(Tag::SetDataFrame { msid }),
                        Op::PublishVideo { ts, data, .. } => want_tags.push(Tag::Media { type_id: 9, msid, ts: *ts, data: data.clone() }),
                        Op::PublishAudio { ts, data, .. } => want_tags.push(Tag::Media { type_id: 8, msid, ts: *ts, data: data.clone() }),
                        _ => {}
                    }
                } else {
                    want_ok = false;
                    silent = true;
                }
            }
            Op::SendPing => want_tags.push(Tag::PingRequest),
            Op::Result { txid, stream_id, non_number } => {
                let key = whole_u32(*txid);
                match key.and_then(|k| self.outstanding.remove(&k).map(|p| (k, p))) {
                    None => want_events.push(Ev::UnknownTransaction { txid_bits: txid.to_bits() }),
                    Some((k, Purpose::Connect)) => {
                        self.answered_txids.push(k);
                        if self.st != St::Disconnected {
                            self.corners.push("late-connect-result-after-leaving-disconnected");
                        }
                        self.st = St::Connected;
                        want_events.push(Ev::ConnectionAccepted);
                    }
                    Some((k, purpose)) => {
                        self.answered_txids.push(k);
                        match (stream_id, non_number) {
                            (Some(sid), false) => {
                                let sid = *sid as u32;
                                if self.st != St::Connected {
                                    self.corners.push("create-stream-result-while-not-idle");
                                }
                                self.active_stream = Some(sid);
                                match purpose {
                                    Purpose::CreateForPlay { key } => {
                                        self.st = St::PlayRequested;
                                        want_tags.push(Tag::SetBufferLength { stream: sid });
                                        want_tags.push(Tag::Command { name: "play".into(), txid_bits: 0f64.to_bits(), msid: sid, arg0: Some(key), arg1: None });
                                    }
                                    Purpose::CreateForPublish { key, kind } => {
                                        self.st = St::PublishRequested;
                                        want_tags.push(Tag::Command { name: "publish".into(), txid_bits: 0f64.to_bits(), msid: sid, arg0: Some(key), arg1: Some(kind) });
                                    }
                                    Purpose::Connect => unreachable!(),
                                }
                            }
                            _ => want_ok = false, // a createStream result without a stream number
                        }
                    }
                }
            }
            Op::Error { txid } => {
                let key = whole_u32(*txid);
                match key.and_then(|k| self.outstanding.remove(&k).map(|p| (k, p))) {
                    None => want_events.push(Ev::UnknownTransaction { txid_bits: txid.to_bits() }),
                    Some((k, Purpose::Connect)) => {
                        self.answered_txids.push(k);
                        want_events.push(Ev::ConnectionRejected);
                    }
                    Some((k, _)) => {
                        self.answered_txids.push(k);
                        want_ok = false; // createStream refused by the server: reported as an error
                    }
                }
            }
            Op::OnStatus { code, form, .. } => {
                if !(*form == 0 || (4..=9).contains(form)) || code.is_none() {
                    want_ok = false; // malformed status arguments
                } else {
                    match code.as_deref().unwrap() {
                        "NetStream.Play.Start" => {
                            if self.st == St::PlayRequested {
                                self.st = St::Playing;
                                want_events.push(Ev::PlaybackAccepted);
                            } else {
                                want_ok = false;
                            }
                        }
                        "NetStream.Publish.Start" => {
                            if self.st == St::PublishRequested {
                                self.st = St::Publishing;
                                want_events.push(Ev::PublishAccepted);
                            } else {
                                want_ok = false;
                            }
                        }
                        other => want_events.push(Ev::UnhandleableStatus { code: other.to_string() }),
                    }
                }
            }
            Op::Audio { msid, ts, data } | Op::Video { msid, ts, data } => {
                if self.st == St::PlayRequested || self.st == St::Playing {
                    if self.active_stream == Some(*msid) {
                        if matches!(op, Op::Audio { .. }) {
                            want_events.push(Ev::Audio { ts: *ts, data: data.clone() });
                        } else {
                            want_events.push(Ev::Video { ts: *ts, data: data.clone() });
                        }
                    }
                } else {
                    // media outside playback is refused (no event); today an error is returned
                    want_ok = false;
                }
            }
            Op::OnMetaData { msid } => {
                if self.active_stream == Some(*msid) {
                    want_events.push(Ev::Metadata);
                }
            }
            Op::Ping { ts, .. } => want_tags.push(Tag::PingResponse { ts: *ts }),
            Op::Control { .. } | Op::OtherCommand { .. } => {}
            Op::PingResponse { ts } => want_events.push(Ev::PingResponse { ts: *ts }),
            Op::Ack { n } => want_events.push(Ev::AckReceived { n: *n }),
            Op::SetChunkSize { .. } | Op::StreamBegin { .. } => {}
        }

        // ---- compare
        if obs.ok != want_ok {
            // media while not playing: "raised only ... while play is requested or running" - an Ok
            // without an event would satisfy the statement as well
            if !want_ok && obs.ok && matches!(op, Op::Audio { .. } | Op::Video { .. }) && obs.events.is_empty() {
                return Verdict::Agree;
            }
            let msg = format!("model expects {}, library returned {}{} in state {:?}", if want_ok { "Ok" } else { "Err" }, if obs.ok { "Ok" } else { "Err: " }, obs.error, self.st);
            return diverge(if want_ok { "unexpected-error" } else { "refusal-expected-but-accepted" }, msg);
        }
        if silent && obs.bytes_emitted > 0 {
            return diverge("bytes-emitted-by-a-refused-request", format!("{} bytes emitted for {:?} in state {:?}", obs.bytes_emitted, op, self.st));
        }
        if !obs.ok {
            if obs.bytes_emitted > 0 {
                return diverge("bytes-emitted-by-a-refused-request", format!("{} bytes", obs.bytes_emitted));
            }
            return if app_call { Verdict::Agree } else { Verdict::EndedByExpectedError };
        }
        if obs.events != want_events {
            let clause = match (obs.events.first(), want_events.first()) {
                (Some(Ev::Audio { .. }), None) | (Some(Ev::Video { .. }), None) => "media-event-for-inactive-stream-or-state",
                (None, Some(Ev::Audio { .. })) | (None, Some(Ev::Video { .. })) => "media-event-missing-for-active-stream",
                (_, Some(Ev::UnknownTransaction { .. })) => "answer-to-unknown-transaction-applied-or-not-reported",
                (Some(Ev::UnknownTransaction { .. }), _) => "answer-to-current-transaction-reported-as-unknown",
                _ => "events-differ",
            };
            return diverge(clause, format!("library raised {:?}, model expects {:?}", obs.events, want_events).chars().take(400).collect());
        }
        // commands of the workflow, media, ping tags: exactly the expected ones, in order; other
        // output (control messages, and commands the statement does not mention such as
        // releaseStream / FCPublish that real clients send) is tolerated
        let workflow = ["connect", "createStream", "play", "publish", "deleteStream"];
        let relevant: Vec<&Tag> = obs
            .tags
            .iter()
            .filter(|t| match t {
                Tag::Other(_) => false,
                Tag::Command { name, .. } => workflow.contains(&name.as_str()),
                Tag::SetBufferLength { .. } => want_tags.iter().any(|w| matches!(w, Tag::SetBufferLength { .. })),
                _ => true,
            })
            .collect();
        // a deleteStream names its stream in the argument; on which message stream the command
        // itself travels is not part of the statement
        let norm = |t: &Tag| -> Tag {
            match t {
                Tag::Command { name, txid_bits, arg0, arg1, .. } if name == "deleteStream" => Tag::Command { name: name.clone(), txid_bits: *txid_bits, msid: 0, arg0: arg0.clone(), arg1: arg1.clone() },
                other => other.clone(),
            }
        };
        let relevant: Vec<Tag> = relevant.into_iter().map(norm).collect();
        let want: Vec<Tag> = want_tags.iter().map(norm).collect();
        if relevant != want {
            let clause = match (op, want.first()) {
                (Op::Ping { .. }, _) => "ping-request-not-echoed",
                (Op::StopPlayback, _) | (Op::StopPublishing, _) => "stop-does-not-delete-the-active-stream",
                (Op::Result { .. }, Some(Tag::Command { .. })) | (Op::Result { .. }, Some(Tag::SetBufferLength { .. })) => "create-stream-result-not-followed-by-play-or-publish-on-returned-stream",
                (_, None) => "unexpected-bytes-emitted",
                _ => "emitted-messages-differ",
            };
            return diverge(clause, format!("emitted {:?}, model expects {:?}", relevant, want).chars().take(500).collect());
        }
        Verdict::Agree
    }
}
