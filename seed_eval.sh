#!/bin/bash
# Confirms a seeded break and runs checks against it, without touching /repo or /verif/evidence.
#   ./seed_eval.sh <PROP> <A|B> "<check ids to run>" [worktree prefix, default /tmp/wt_]
# 1. in the agent's scratch worktree: change applied -> existing suite passes, demo fails; change removed -> demo passes
# 2. the change is applied to a second scratch worktree of /repo (/tmp/seedrepo) that a scratch copy of the
#    harness (/tmp/seedharness, path dependencies rewritten) builds against; the listed checks run in the quick tier
#    with RMLV_ROOT=/tmp/seedroot (evidence and replays go there)
# 3. stored under /verif/seeded/<PROP>_<X>[suffix]/ with meta.json
set -u
P="$1"; X="$2"; CHECKS="${3:-$1}"; PREFIX="${4:-/tmp/wt_}"; SUFFIX="${5:-}"
WT=$PREFIX$P
S=$WT/_seeded
[ -f "$S/$X.diff" ] || { echo "no $S/$X.diff"; exit 2; }
crate=amf0; grep -q "rml_rtmp" "$S/${X}_demo.rs" && crate=rtmp
feat=""; grep -q "verif_hooks" "$S/${X}_demo.rs" && [ $crate = rtmp ] && feat="--features verif_hooks"
export CARGO_NET_OFFLINE=true
cd $WT || exit 2
git checkout -q -- . ; rm -f rtmp/tests/seeded_*.rs amf0/tests/seeded_*.rs
git apply "$S/$X.diff" || { echo "patch does not apply"; exit 2; }
suite=$(cargo test --workspace --offline 2>&1 | grep -E "^test result" | awk '{p+=$4; f+=$6} END {print p" passed "f" failed"}')
mkdir -p $crate/tests; cp "$S/${X}_demo.rs" $crate/tests/seeded_demo.rs
demo_with=$(cargo test -p rml_$crate --test seeded_demo --offline $feat 2>&1 | grep -E "^test result" | tail -1)
git checkout -q -- .
demo_without=$(cargo test -p rml_$crate --test seeded_demo --offline $feat 2>&1 | grep -E "^test result" | tail -1)
rm -f $crate/tests/seeded_demo.rs; rmdir $crate/tests 2>/dev/null
echo "[$P/$X] existing suite with change: $suite"
echo "[$P/$X] demo with change:    $demo_with"
echo "[$P/$X] demo without change: $demo_without"
# --- scratch repo + scratch harness
if [ ! -d /tmp/seedrepo ]; then git -C /repo worktree add --detach /tmp/seedrepo HEAD -q; cp /repo/Cargo.lock /tmp/seedrepo/; fi
# the change is evaluated on the commit it was written against (the agent worktree's HEAD)
BASE=$(git -C $WT rev-parse HEAD)
git -C /tmp/seedrepo checkout -q -- . ; git -C /tmp/seedrepo checkout -q --detach "$BASE"
mkdir -p /tmp/seedharness /tmp/seedroot
rsync -a --delete --exclude target /verif/harness/ /tmp/seedharness/
sed -i 's#/repo/rtmp#/tmp/seedrepo/rtmp#; s#/repo/amf0#/tmp/seedrepo/amf0#' /tmp/seedharness/Cargo.toml
cp /verif/KNOWN_FINDINGS.txt /tmp/seedroot/
git -C /tmp/seedrepo apply "$S/$X.diff" || { echo "patch does not apply to scratch repo"; exit 2; }
( cd /tmp/seedharness && cargo build --release --offline >/tmp/seedroot/build.log 2>&1 ) || { echo "harness does not build against the change"; tail -5 /tmp/seedroot/build.log; git -C /tmp/seedrepo checkout -q -- .; exit 2; }
results=""
for c in $CHECKS; do
  out=$(RMLV_ROOT=/tmp/seedroot /tmp/seedharness/target/release/rmlv run $c --tier quick --seed 7 2>&1); code=$?
  sig=$(echo "$out" | grep -E "^  signature:" | head -3 | sed 's/^  signature: //' | cut -c1-110 | tr '\n' ';')
  echo "[$P/$X] check $c exit=$code $sig"
  results="$results{\"check\":\"$c\",\"exit\":$code,\"signatures\":\"$(echo $sig | sed 's/[\\"]/_/g')\"},"
done
git -C /tmp/seedrepo checkout -q -- .
D=/verif/seeded/${P}_$X$SUFFIX; mkdir -p $D
cp "$S/$X.diff" $D/patch.diff; cp "$S/${X}_demo.rs" $D/demo.rs
python3 - "$P" "$X" "$crate" "$suite" "$demo_with" "$demo_without" "[${results%,}]" "$D/meta.json" "$feat" "$BASE" <<'PY'
import sys, json
P,X,crate,suite,dw,dwo,results,outp,feat,base = sys.argv[1:]
meta = {
 "breaks_property": P, "variant": X, "base_commit_of_repo": base, "origin": "independent sub-agent given only the property text and a scratch worktree",
 "demo": {"file": "demo.rs", "goes_in": f"{crate}/tests/", "cargo_flags": feat, "with_change": dw, "without_change": dwo},
 "existing_suite_with_change": suite,
 "what_it_needs_to_manifest": "see notes.md (section %s)" % X,
 "checks_run_against_it": json.loads(results),
 "how_run": "patch applied to a scratch worktree of /repo; a scratch copy of /verif/harness built against it; `rmlv run <id> --tier quick --seed 7`; scratch copies removed afterwards (equivalent to: git -C /repo apply patch.diff; ./check <id> --tier quick --seed 7; git -C /repo checkout -- .)",
}
json.dump(meta, open(outp,'w'), indent=1)
PY
cp "$S/notes.md" $D/notes.md
