#!/bin/bash
# Confirms a seeded break and runs checks against it.
#   ./seed_eval.sh <PROP> <A|B> "<check ids to run>"
# 1. in the scratch worktree /tmp/wt_<PROP>: change applied -> existing suite passes, demo fails; change removed -> demo passes
# 2. change applied to /repo -> listed checks (quick) -> undone
# 3. stored under /verif/seeded/<PROP>_<X>/ with meta.json
set -u
P="$1"; X="$2"; CHECKS="${3:-$1}"
WT=/tmp/wt_$P
S=$WT/_seeded
[ -f "$S/$X.diff" ] || { echo "no $S/$X.diff"; exit 2; }
crate=amf0; grep -q "rml_rtmp" "$S/${X}_demo.rs" && crate=rtmp
cd $WT || exit 2
git checkout -q -- . ; rm -f rtmp/tests/seeded_*.rs amf0/tests/seeded_*.rs
export CARGO_NET_OFFLINE=true
git apply "$S/$X.diff" || { echo "patch does not apply"; exit 2; }
suite=$(cargo test --workspace --offline 2>&1 | grep -E "^test result" | awk '{p+=$4; f+=$6} END {print p" passed "f" failed"}')
mkdir -p $crate/tests; cp "$S/${X}_demo.rs" $crate/tests/seeded_demo.rs
demo_with=$(cargo test -p rml_$crate --test seeded_demo --offline 2>&1 | grep -E "^test result" | tail -1)
git checkout -q -- .
demo_without=$(cargo test -p rml_$crate --test seeded_demo --offline 2>&1 | grep -E "^test result" | tail -1)
rm -f $crate/tests/seeded_demo.rs; rmdir $crate/tests 2>/dev/null
echo "[$P/$X] existing suite with change: $suite"
echo "[$P/$X] demo with change:    $demo_with"
echo "[$P/$X] demo without change: $demo_without"
# --- against /repo
cd /verif
git -C /repo status --short | grep -v '^??' | grep -q . && { echo "/repo not clean"; exit 2; }
git -C /repo apply "$S/$X.diff" || { echo "patch does not apply to /repo"; exit 2; }
results=""
for c in $CHECKS; do
  out=$(./check $c --tier quick --seed 7 2>&1); code=$?
  sig=$(echo "$out" | grep -E "^  signature:" | head -3 | sed 's/^  signature: //' | cut -c1-110 | tr '\n' ';')
  echo "[$P/$X] check $c exit=$code $sig"
  results="$results{\"check\":\"$c\",\"exit\":$code,\"signatures\":\"$(echo $sig | sed 's/"/\\"/g')\"},"
done
git -C /repo checkout -- .
D=/verif/seeded/${P}_$X; mkdir -p $D
cp "$S/$X.diff" $D/patch.diff; cp "$S/${X}_demo.rs" $D/demo.rs
python3 - "$P" "$X" "$crate" "$suite" "$demo_with" "$demo_without" "[${results%,}]" "$S/notes.md" "$D/meta.json" <<'PY'
import sys, json
P,X,crate,suite,dw,dwo,results,notes,outp = sys.argv[1:]
meta = {
 "breaks_property": P, "variant": X, "origin": "independent sub-agent given only the property text and a scratch worktree",
 "demo": {"file": "demo.rs", "goes_in": f"{crate}/tests/", "with_change": dw, "without_change": dwo},
 "existing_suite_with_change": suite,
 "what_it_needs_to_manifest": "see notes.md (section %s)" % X,
 "checks_run_against_it": json.loads(results),
 "how_run": "git -C /repo apply patch.diff; ./check <id> --tier quick --seed 7; git -C /repo checkout -- .",
}
json.dump(meta, open(outp,'w'), indent=1)
PY
cp "$S/notes.md" $D/notes.md
